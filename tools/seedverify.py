#!/usr/bin/env python3
"""Confirms a seeded change delivered by a fault-seeding sub-agent, independently of its report:
   in a scratch git worktree of /repo: (1) the demo passes on the unchanged tree, (2) with patch.diff applied the
   repository builds, (3) the existing tests of the affected packages show no new failures, (4) the demo fails.
   usage: seedverify.py <seed dir> <id>     -> copies a confirmed seed to /verif/seeded/<id>/ and prints KEEP/DROP."""
import json, os, re, shutil, subprocess, sys

ENV = dict(os.environ, GOFLAGS='-mod=mod', GOPROXY='off')

def sh(cmd, cwd, timeout=1800):
    try:
        p = subprocess.run(cmd, shell=True, cwd=cwd, env=ENV, capture_output=True, text=True, timeout=timeout)
        return p.returncode, (p.stdout + p.stderr)
    except subprocess.TimeoutExpired:
        return 124, 'TIMEOUT'

def failing_tests(out):
    return sorted(set(re.findall(r'^--- FAIL: (\S+)', out, re.M)))

def main():
    src, sid = sys.argv[1], sys.argv[2]
    loc = open(os.path.join(src, 'demo_location.txt')).read()
    m = re.search(r'<worktree>/(\S+_test\.go)', loc) or re.search(r'(\S+/zz_seed\S+_test\.go)', loc)
    run = re.search(r"go test[^\n]*", loc)
    if not m or not run:
        print('DROP', sid, 'cannot parse demo_location.txt'); return 1
    demo_rel = re.sub(r'^/tmp/seed-[A-D]/', '', m.group(1).replace('<worktree>/', ''))
    demo_cmd = run.group(0)
    pkg = './' + os.path.dirname(demo_rel) + '/'
    wt = '/var/tmp/seedverify-' + sid
    subprocess.run(['git', '-C', '/repo', 'worktree', 'remove', '--force', wt], capture_output=True)
    shutil.rmtree(wt, ignore_errors=True)
    subprocess.run(['git', '-C', '/repo', 'worktree', 'add', '-f', wt, 'HEAD', '-q'], check=True)
    log = []
    try:
        patch = os.path.join(src, 'patch.diff')
        changed = sorted({os.path.dirname(f) for f in re.findall(r'^\+\+\+ b/(\S+)', open(patch).read(), re.M)})
        pkgs = sorted({'./' + c + '/' for c in changed} | {pkg})
        # baseline failures of those packages on the unchanged tree
        rc, out = sh('go test -count=1 ' + ' '.join(pkgs) + ' 2>&1 | tail -400', wt)
        base_fail = failing_tests(out)
        shutil.copy(os.path.join(src, 'demo_test.go'), os.path.join(wt, demo_rel))
        rc0, out0 = sh(demo_cmd + ' 2>&1 | tail -30', wt)
        clean_ok = rc0 == 0 and 'FAIL' not in out0 and 'no tests to run' not in out0
        log.append('demo on unchanged tree: ' + ('PASS' if clean_ok else 'FAIL\n' + out0[-600:]))
        rc, out = sh('git apply ' + patch, wt)
        if rc != 0:
            print('DROP', sid, 'patch does not apply: ' + out[-300:]); return 1
        rc, out = sh('go build ./... 2>&1 | tail -5', wt)
        if 'error' in out.lower() or re.search(r'\.go:\d+:\d+:', out):
            print('DROP', sid, 'does not build: ' + out[-300:]); return 1
        os.remove(os.path.join(wt, demo_rel))
        rc, out = sh('go test -count=1 ' + ' '.join(pkgs) + ' 2>&1 | tail -400', wt)
        new_fail = [t for t in failing_tests(out) if t not in base_fail]
        log.append('existing tests with patch: new failures %s (baseline failures %s)' % (new_fail, base_fail))
        shutil.copy(os.path.join(src, 'demo_test.go'), os.path.join(wt, demo_rel))
        rc1, out1 = sh(demo_cmd + ' 2>&1 | tail -30', wt)
        seeded_fails = rc1 != 0 or 'FAIL' in out1
        log.append('demo with patch: ' + ('FAIL (as required)' if seeded_fails else 'PASS (seed not demonstrated)'))
        keep = clean_ok and not new_fail and seeded_fails
        if keep:
            dst = os.path.join('/verif/seeded', sid)
            os.makedirs(dst, exist_ok=True)
            for f in ('patch.diff', 'demo_test.go', 'demo_location.txt'):
                shutil.copy(os.path.join(src, f), dst)
            meta = json.load(open(os.path.join(src, 'meta.json')))
            meta['confirmed_by_seedverify'] = log
            meta['demo_file'] = demo_rel
            meta['demo_cmd'] = demo_cmd
            json.dump(meta, open(os.path.join(dst, 'meta.json'), 'w'), indent=1)
        print('KEEP' if keep else 'DROP', sid, ' | '.join(log)[:700])
        return 0 if keep else 1
    finally:
        subprocess.run(['git', '-C', '/repo', 'worktree', 'remove', '--force', wt], capture_output=True)
        shutil.rmtree(wt, ignore_errors=True)

if __name__ == '__main__':
    sys.exit(main())
