#!/usr/bin/env python3
"""Integration-time helper (never run by a check): turns the obligations that did not discharge in a full run
on the unchanged tree — and that are not known findings — into /verif/unclaimed.json entries with a reason
derived from their category. usage: mkunclaimed.py <log of ./check runs> [more logs]   (merges into the file)"""
import json, re, sys, os

P = '/verif/unclaimed.json'
cur = json.load(open(P)) if os.path.exists(P) else []
have = {e['obligation'] for e in cur}

WHOLE = {  # functions whose contract is left in place but withdrawn as a whole
    'syntax.mask': 'bits.mask: the enumerator interface contract it needs is array-specific (see notes/w-c12.md); whole function withdrawn',
    '(translate.Translator).arrFromArrai': 'blocked by the same enumerator contract gap as syntax.mask; whole function withdrawn',
}

def reason(name, status):
    fn = name.split('/')[0]
    if fn in WHOLE:
        return None
    if 'frame.unknown-callee' in name:
        return 'frame of this function cannot be established: it calls a callee that has no frame contract'
    if '/frame.G.' in name or '/inv.' in name and '.frame.G.' in name:
        return 'ghost enumeration state of two workers\' iterator models is not listed in this contract\'s modifies clause (contract gap, no memory involved)'
    if 'notallholes' in name:
        return 'NewArray requires a non-all-hole argument (NewOffsetArray returns a non-canonical count-0 Array otherwise); this caller cannot establish it and the case was not confirmed as observable — ASSUMED by later obligations of this function'
    if name.startswith(('rel.Union/', 'rel.Intersect/', 'rel.NIntersect/', 'rel.NUnion/', '(rel.UnionSet).unionWithSubset/', '(rel.GenericSet).Enumerator/', '(rel.TrueSet).Enumerator/')):
        return 'open item of the frozen-backed set dispatch (notes/w-c01.md): solver does not finish / enumerator ghosts not connected; pre@ and inv. entries are ASSUMED by later obligations'
    if name.startswith('(rel.Relation).Join/'):
        return 'Relation.Join: carrying name-level partition facts to column indices does not discharge (notes/w-c04.md); ASSUMED by later obligations'
    if name.startswith(('syntax.arrayTrimPrefix/', 'syntax.arrayTrimSuffix/', 'syntax.arrayHasPrefix/', 'syntax.stdSeqConcat/', 'syntax.stdSeqJoin/')):
        return 'does not discharge reliably with all workers\' contracts loaded (interaction of enumerator / Difference contracts, notes/w-c14.md, notes/w-c01.md)'
    if status == 'sat':
        return 'counter-model exists for the contract as written (contract too weak or not triaged); withdrawn, not a confirmed defect'
    return 'did not discharge within the quick budget at integration (%s); no defect known' % status

added = 0
for log in sys.argv[1:]:
    for l in open(log):
        m = re.search(r'obligation=(\S+) status=(\S+)', l)
        if not m:
            continue
        name, st = m.group(1), m.group(2)
        if name in have:
            continue
        r = reason(name, st)
        if r is None:
            continue
        cur.append({'obligation': name, 'reason': r})
        have.add(name); added += 1
for fn, why in WHOLE.items():
    pat = re.escape(fn) + '/.*'
    if pat not in have:
        cur.append({'obligation': pat, 'regexp': True, 'reason': why}); have.add(pat); added += 1
cur.sort(key=lambda e: e['obligation'])
json.dump(cur, open(P, 'w'), indent=1)
print('unclaimed.json:', len(cur), 'entries (+%d)' % added)
