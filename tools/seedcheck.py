#!/usr/bin/env python3
"""Runs the registered quick check of a seeded change's property against a scratch copy of /repo with the
change applied (the same thing as `git -C /repo apply`, check, `git checkout`, but without touching /repo).
usage: seedcheck.py [-j N] [id ...]     results: /verif/seeded/<id>/check_result.json, summary on stdout"""
import concurrent.futures, glob, json, os, re, shutil, subprocess, sys, tempfile, time

def run(sid):
    d = os.path.join('/verif/seeded', sid)
    meta = json.load(open(os.path.join(d, 'meta.json')))
    prop = meta['property']
    tmp = tempfile.mkdtemp(prefix='seedcheck-', dir='/var/tmp')
    try:
        subprocess.run(['rsync', '-a', '--exclude', '.git', '/repo/', tmp + '/'], check=True)
        p = subprocess.run(['patch', '-p1', '-s', '-i', os.path.join(d, 'patch.diff')], cwd=tmp, capture_output=True, text=True)
        if p.returncode != 0:
            return sid, prop, 'PATCH-FAILED', p.stdout[-200:]
        env = dict(os.environ, VERIF_REPO=tmp, VERIF_SCRATCH='seed-' + sid, GOFLAGS='-mod=mod', GOPROXY='off')
        env.setdefault('VERIF_PAR', '6')
        t0 = time.time()
        p = subprocess.run(['/verif/bin/govc', 'check', prop, 'quick'], capture_output=True, text=True, env=env, timeout=3600)
        out = p.stdout + p.stderr
        viol = [l for l in out.splitlines() if l.startswith('VIOLATION')]
        res = {'seed': sid, 'property': prop, 'exit': p.returncode, 'violations': viol, 'wall_s': round(time.time() - t0, 1),
               'summary': [l for l in out.splitlines() if l.startswith('govc ')]}
        json.dump(res, open(os.path.join(d, 'check_result.json'), 'w'), indent=1)
        verdict = 'CAUGHT' if p.returncode == 1 and viol else ('MISSED' if p.returncode == 0 else 'ERROR(%d)' % p.returncode)
        if verdict == 'MISSED' and os.environ.get('SEEDCHECK_CROSS', '1') == '1':
            # does the check of ANOTHER property, whose contracts cover the changed files, catch it?
            changed = set(re.findall(r'^\+\+\+ b/(\S+)', open(os.path.join(d, 'patch.diff')).read(), re.M))
            others = []
            for ef in sorted(glob.glob('/verif/evidence/C*.json')):
                q = os.path.basename(ef)[:-5]
                if q == prop:
                    continue
                ev = json.load(open(ef))
                if any((o.get('pos') or '').split(':')[0] in changed for o in ev['coverage'].get('per_obligation', [])):
                    others.append(q)
            for q in others:
                pq = subprocess.run(['/verif/bin/govc', 'check', q, 'quick'], capture_output=True, text=True, env=env, timeout=3600)
                vq = [l for l in (pq.stdout + pq.stderr).splitlines() if l.startswith('VIOLATION')]
                if pq.returncode == 1 and vq:
                    res['caught_by_other_property'] = {'property': q, 'violations': vq}
                    json.dump(res, open(os.path.join(d, 'check_result.json'), 'w'), indent=1)
                    verdict = 'CAUGHT-BY-' + q
                    viol = vq
                    break
        ob = ', '.join(re.sub(r'.*obligation=(\S+).*', r'\1', v) for v in viol[:3])
        return sid, prop, verdict, ob or out[-200:].replace('\n', ' ')
    except Exception as ex:
        return sid, prop, 'ERROR', repr(ex)
    finally:
        shutil.rmtree(tmp, ignore_errors=True)
        shutil.rmtree(os.path.join('/verif/out', 'seed-' + sid), ignore_errors=True)

def main():
    args = sys.argv[1:]
    jobs = 1
    if args[:1] == ['-j']:
        jobs = int(args[1]); args = args[2:]
    ids = args or sorted(os.path.basename(p) for p in glob.glob('/verif/seeded/C*'))
    with concurrent.futures.ThreadPoolExecutor(jobs) as ex:
        for r in ex.map(run, ids):
            print('%-8s %-4s %-12s %s' % r, flush=True)

if __name__ == '__main__':
    main()
