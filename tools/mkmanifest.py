#!/usr/bin/env python3
"""Regenerates /verif/MANIFEST.json from the table below (kept here so that the claim text, the
level note and the not-applicable reasons live in one reviewable place)."""
import json, subprocess, sys, os

BASELINE = json.load(open('/root/.vp/BASELINE.json'))

# property -> (claim text, level note, design ref, technique) ; absent => not claimed (reason in NA)
CLAIMS = {}
NA = {}

def claim(pid, text, note, ref, technique="contract-based deductive verification: WP/VC generation over go/ssa of the real functions, contracts in //@ comments, discharged by z3/cvc5"):
    CLAIMS[pid] = dict(text=text, note=note, ref=ref, technique=technique)

exec(open(os.path.join(os.path.dirname(__file__), 'claims.py')).read())

def hook_commits():
    try:
        out = subprocess.check_output(['git', '-C', '/repo', 'log', '--format=%H %s'], text=True)
    except Exception:
        return []
    return [l.split()[0] for l in out.splitlines() if ' verif-hook:' in l or l.split(' ', 1)[1].startswith('verif:')]

checks = []
for pid in sorted(CLAIMS):
    c = CLAIMS[pid]
    checks.append({
        "property_id": pid,
        "quick_cmd": f"./check {pid} quick",
        "thorough_cmd": f"./check {pid} thorough",
        "evidence_file": f"/verif/evidence/{pid}.json",
        "replay_cmd_template": "./check replay {path}",
        "engine": "govc",
        "level_claimed": {"category": "proof", "text": c['text'], "design_ref": c['ref']},
        "level_note": c['note'],
        "technique": c['technique'],
    })

manifest = {
    "version": 1,
    "setup_cmd": "cd engine && GOFLAGS=-mod=mod GOPROXY=off go build -o ../bin/govc .",
    "hooks": {
        "guard": "verif",
        "enable": "-tags verif (comment-only contract files <pkg>/verif_contracts.go; read by govc, never executed)",
        "baseline_off_cmd": BASELINE["cmd"],
        "source_commits": hook_commits(),
        "add_only": True,
    },
    "engines": [{
        "name": "govc",
        "path": "/verif/engine",
        "serves_properties": sorted(CLAIMS),
        "kind_free_text": "self-written deductive verifier for Go: loads /repo with go/packages, builds go/ssa, generates weakest-precondition style verification conditions per function from //@ contracts (requires/ensures/loop invariants/assigns frames/ghost state), discharges each obligation with a z3-new/z3/cvc5 portfolio, replays counter-models on the real code with go test -overlay",
    }],
    "checks": checks,
    "not_applicable": [{"property_id": p, "reason": NA[p]} for p in sorted(NA)],
    "notes": "Contracts live in /repo/<pkg>/verif_contracts.go (build tag verif, comments only) and /verif/specs. Known genuine defects are listed in /verif/known_findings.json; see DESIGN.md.",
}
json.dump(manifest, open('/verif/MANIFEST.json', 'w'), indent=1)
print("MANIFEST.json written:", len(checks), "checks,", len(NA), "not applicable")
