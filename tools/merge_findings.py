#!/usr/bin/env python3
"""Merge reviewed entries of findings_proposed/<worker>.json into known_findings.json.
usage: merge_findings.py w-c17 [w-c19 ...]   (run by hand at integration time, never by a check)"""
import json, sys
p = '/verif/known_findings.json'
d = json.load(open(p))
have = {(f['obligation'], f.get('region', '')) for f in d['findings']}
for w in sys.argv[1:]:
    for x in json.load(open(f'/verif/findings_proposed/{w}.json')):
        ob = x.get('obligation', '')
        if not ob or ob.startswith('(none'):
            continue
        key = (ob, x.get('region') or '')
        if key in have:
            continue
        have.add(key)
        e = {'kind': 'finding', 'property': x['property'], 'obligation': ob, 'what': x.get('what', '')}
        if x.get('region'):
            e['region'] = x['region']
        for k in ('confirmed_by', 'fix_candidate'):
            if x.get(k):
                e[k] = x[k]
        e['found_by'] = w
        d['findings'].append(e)
json.dump(d, open(p, 'w'), indent=1)
print(len(d['findings']), 'entries')
