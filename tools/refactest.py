#!/usr/bin/env python3
"""False-alarm test: applies each behaviour-preserving refactoring of /verif/refactors/*.diff to a scratch copy of
/repo and runs the quick checks whose contracts cover the changed file; every check must exit 0.
usage: refactest.py [-j N] [pattern ...]     (scratch copies under /var/tmp, removed after each run)
Results: /verif/refactors/RESULTS.txt (written here, by hand-run only; not used by any check)."""
import concurrent.futures, glob, json, os, re, shutil, subprocess, sys, tempfile
V = '/verif'; R = '/repo'

def props_for(files):
    out = []
    for ef in sorted(glob.glob(V + '/evidence/C*.json')):
        ev = json.load(open(ef))
        if any((o.get('pos') or '').split(':')[0] in files for o in ev['coverage'].get('per_obligation', [])):
            out.append(os.path.basename(ef)[:-5])
    return out

def run(d):
    name = os.path.basename(d)[:-5]
    files = set(re.findall(r'^\+\+\+ b/(\S+)', open(d).read(), re.M))
    tmp = tempfile.mkdtemp(prefix='refac-', dir='/var/tmp')
    try:
        subprocess.run(['rsync', '-a', '--exclude', '.git', R + '/', tmp + '/'], check=True)
        p = subprocess.run(['patch', '-p1', '-s', '-i', d], cwd=tmp, capture_output=True, text=True)
        if p.returncode != 0:
            return name + ' PATCH-FAILED (the refactored lines were changed by a later fix: commit) ' + p.stdout[-80:].replace('\n', ' ')
        b = subprocess.run(['go', 'build', './...'], cwd=tmp, capture_output=True, text=True, env=dict(os.environ, GOFLAGS='-mod=mod', GOPROXY='off'))
        if b.returncode != 0:
            return name + ' BUILD-FAILED ' + b.stderr[-200:]
        res = []
        for q in props_for(files):
            if q in ('C10', 'C03') and os.environ.get('REFAC_ALL') != '1':
                continue
            env = dict(os.environ, VERIF_REPO=tmp, VERIF_SCRATCH='refac-' + name, GOFLAGS='-mod=mod', GOPROXY='off')
            env.setdefault('VERIF_PAR', '6')
            r = subprocess.run([V + '/bin/govc', 'check', q, 'quick'], capture_output=True, text=True, env=env, timeout=3600)
            v = [re.sub(r'.*obligation=(\S+) status=(\S+).*', r'\1(\2)', l) for l in (r.stdout + r.stderr).splitlines() if l.startswith('VIOLATION')]
            notes = [l[12:] for l in r.stderr.splitlines() if l.startswith('govc: note: ') and ('bound to' in l or 'loop ordinals' in l)]
            res.append('%s:%d%s%s' % (q, r.returncode, (' ' + ','.join(v[:2])) if r.returncode else '', (' [' + '; '.join(notes[:2]) + ']') if notes else ''))
        return name + ' ' + ' | '.join(res)
    finally:
        shutil.rmtree(tmp, ignore_errors=True)
        shutil.rmtree(V + '/out/refac-' + name, ignore_errors=True)

def main():
    args = sys.argv[1:]
    jobs = 2
    if args[:1] == ['-j']:
        jobs = int(args[1]); args = args[2:]
    ds = sorted(glob.glob(V + '/refactors/*.diff'))
    if args:
        ds = [d for d in ds if any(a in os.path.basename(d) for a in args)]
    lines = []
    with concurrent.futures.ThreadPoolExecutor(jobs) as ex:
        for l in ex.map(run, ds):
            print(l, flush=True); lines.append(l)
    if not args:
        open(V + '/refactors/RESULTS.txt', 'w').write('\n'.join(lines) + '\n')

if __name__ == '__main__':
    main()
