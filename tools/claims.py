# Claims table for MANIFEST.json (exec'd by mkmanifest.py). Keep in step with DESIGN.md §10/§11.

COMMON = (" Obligations are generated on every run from the go/ssa of /repo's working tree (contracts are //@ comments in "
          "<pkg>/verif_contracts*.go and /verif/specs) and must all come back unsat; genuine defects of the unchanged tree are "
          "listed in known_findings.json (re-proved outside their regions), withdrawn obligations in unclaimed.json; both are "
          "repeated in the evidence.")
NOTE_COMMON = (" Trusted: SSA builder, the SSA->SMT translation, z3/cvc5, assumed contracts on dependencies (extern/interface/trusted, "
               "listed per run in evidence.coverage.trusted_base), prelude axioms in /verif/specs/*.smt2, mathematical integers outside "
               "'overflow checked' functions. Counter-models are replayed on the real code only for safety and frame obligations.")

claim("C01",
      "Proof, for all inputs incl. offsets, holes and spare capacity, that the slice-backed set representations (String, Bytes, Array) and the "
      "set-operator dispatch compute the mathematical result: Has/With/Without/Count against pointwise membership `mem` and counting functions; "
      "GenericSet basics, Intersect/Difference/SymmetricDifference and most Union branches over an assumed finite-set contract of the frozen library; "
      "builders asString/asArray/asBytes as functions of the set of tuples given; the set comparisons (<) (<=) (<>) (<>=) against subset-and-cardinality "
      "definitions (every member of the left operand is tested, no early answer, strictness by count)." + COMMON,
      "Not decided: both-UnionSet loops of Intersect/Difference, Union's Map.Merge branch, Dict/Relation/UnionSet methods beyond Count, power set, "
      "=>/where (frozen-backed code; see DESIGN 11); finite-set cardinality facts (|s|<=|t| for s subset of t) are not used." + NOTE_COMMON,
      "DESIGN.md 4.C01, 10, 11")
claim("C02",
      "Proof that every constructor/operator under contract re-establishes the canonical-form invariant (`validString/validBytes/validArray/validSet`, "
      "incl. hole counts = number of negative runes / nil items) and that Equal of sugar tuples, Number, String, GenericSet refines the extensional `eq`; "
      "violations of canonical form on the unchanged tree (Without next to a hole, negative @char) are known findings with regions." + COMMON,
      "GenericTuple, UnionSet, Array and Bytes Equal are proved extensional and GenericTuple/EmptySet Hash coherent with Equal (over the assumed content-hash "
      "contract of frozen.Map); Dict/Relation Equal, Hash of the other types and NewOffsetArray's postconditions are not decided." + NOTE_COMMON,
      "DESIGN.md 4.C02, 10, 11")
claim("C03",
      "Frame proof (`assigns fresh-only`/`nothing`): for every function under contract that stores, appends or copies, no heap row that existed at entry "
      "differs at any return, for all capacities and aliasing of the inputs (the model writes in place when len+n<=cap). Found and fixed: String.with / "
      "Bytes.with appending into shared spare capacity. Composition over branching histories is the frame rule." + COMMON,
      "Covers the functions that carry an assigns clause (listed in the evidence); functions calling a callee without a frame contract get the unprovable "
      "obligation frame.unknown-callee instead of a vacuous pass. Memory inside the frozen library is assumed immutable." + NOTE_COMMON,
      "DESIGN.md 4.C03, 10")
claim("C04",
      "Proof of the positional join machinery against set/sequence definitions: valueProjector algebra, projectedValues, NamesSlice set operations, "
      "createMode's exact mode bits, for every mode the join body chosen by positionalRelation.Join has the required shape, and the eight operators' "
      "partitionNames closures produce the documented headings; Relation.Join's re-sugaring crash is a known finding." + COMMON,
      "The five join bodies are trusted (frame + width only), so the relational postcondition rows(result)=definition is NOT proved; nest/unnest/rank, "
      "GenericJoin and the combine closures are not under contract." + NOTE_COMMON,
      "DESIGN.md 4.C04, 10, 11")
claim("C05",
      "Proof that CallAll of String/Bytes/Array adds exactly the value paired with the key (ghost builder set), SetCall/Call implement the exactly-one rule, "
      "SafeTailExpr takes the fallback exactly in the no-value case, >>/>>> keep keys, offsets and holes for Array/Bytes/String, ++ and n\\seq shift "
      "indices as specified, NewOffset* constructors; deviations on the unchanged tree (holes called or mapped, fractional offsets, sparse ++) are known findings." + COMMON,
      "Dict/Relation/UnionSet/Closure CallAll and the Dict/Set branches of >> are safety+frame only; transformer callbacks are assumed pure." + NOTE_COMMON,
      "DESIGN.md 4.C05, 10")
claim("C06",
      "Refinement proof of every Kind() and of Less for numbers, the four sugar tuples, String, Bytes, Array, EmptySet, TrueSet against axioms defining "
      "`less`/`kind`, lemmas for irreflexivity, asymmetry, trichotomy w.r.t. `eq`, transitivity and the cross-kind rule, and the derived operators "
      "(< > <= >=, ValueLess, dictEntryTupleSort, projectedValues.Less). Incomparable pairs of the unchanged tree are known findings." + COMMON,
      "GenericTuple.Kind/Less (incl. the strict reversal under @neg), UnionSet.Less and Relation.Less (ordered enumeration) are under contract since the second wave; "
      "Less of GenericSet and Dict and the sort-based consumers (orderby, rank, min/max) are not; "
      "`aValue(v)` (v is one of the 18 value types) is assumed." + NOTE_COMMON,
      "DESIGN.md 4.C06, 10")
claim("C07",
      "Order-independence proof for the set builders: asString/asArray/asBytes (and the iteration model in general) are verified with the enumeration "
      "order of maps and frozen sets left unconstrained, and their postconditions describe the result as a function of the SET of tuples given; the "
      "order-dependent last-wins behaviour on duplicate indices is a known finding." + COMMON,
      "Also: Relation.Less/UnionSet.Less consume only ORDERED enumerators (ghost enord/itord; a hash-ordered source fails the invariant) and SetPattern.Bind binds a "
      "lone structured pattern only for a singleton set. Rank/OrderBy, printing order and the absence of other seed channels are not decided." + NOTE_COMMON,
      "DESIGN.md 4.C07, 10, 11")
claim("C08",
      "Evaluation-level equivalences: ArrowExpr.Eval and Closure.CallAll/Function.Eval are proved against one predicate (e1 -> \\p e2 = (\\p e2)(e1) = let), "
      "ExprAsFunction is the \\. binder, and If/And/Or evaluate only the branches they select (append-only ghost log of evaluations)." + COMMON,
      "Grammar-level clauses (comments, whitespace, parentheses, precedence, substitution), literal folding and CondExpr are not decided." + NOTE_COMMON,
      "DESIGN.md 4.C08, 10, 11")
claim("C09",
      "Per-pattern Bind contracts: Ident/ExtraElement/Expr/Fallback patterns, PatternExprPair, first-matching-arm semantics of cond with the arm's bindings, "
      "Scope.MatchedUpdate against a scope model, ArrayPattern.Bind's safety and shape clauses, DictPattern.Bind (each entry matched against the value under its key, "
      "fallback only for an absent key), TuplePattern.Bind (present/absent/exact attributes), SetPattern.Bind (non-set, singleton); wrong bindings of the unchanged tree "
      "(offsets ignored, holes read as values, repeated names compared by text, Bind errors swallowed) are known findings." + COMMON,
      "ArrayPattern's per-item clauses and the `...rest` clauses of Dict/TuplePattern are parked (not claimed); Expr.Eval/Pattern.Bind are interface-level assumed meanings." + NOTE_COMMON,
      "DESIGN.md 4.C09, 10, 11")
claim("C10",
      "Absence of run-time panics (index/slice bounds, nil dereference, unchecked type assertion, division by zero, negative make, nil-map write, explicit "
      "panic) in ~500 functions under contract, from preconditions that callers are checked against; crashes of the unchanged tree reachable from arr.ai "
      "programs are known findings with regions." + COMMON,
      "Parser, import-cycle hang, recursion depth and functions using recover/unsafe are outside; nil-ness of receivers/fields is a type-invariant precondition assumed at interface calls." + NOTE_COMMON,
      "DESIGN.md 4.C10, 10")
claim("C11",
      "Ownership contracts: every store to a lazily cached field/variable (GenericTuple names/buckets, positionalRelation metadata, std scopes) happens "
      "with its sync.Once/Mutex held, reads happen after the guard completed, and function literals run concurrently by the frozen library write no captured "
      "variable (two that do are known findings); the import cache touches its map only under the mutex and wakes every waiter on every path once the "
      "in-flight marker is resolved (the missing wake-up on the error path was found here and fixed)." + COMMON,
      "Schedules, serial equivalence and other lazily initialised state are not decided; sync.Cond/Mutex are assumed contracts with ghost counters." + NOTE_COMMON,
      "DESIGN.md 4.C11, 10")
claim("C12",
      "String-literal reader proved against a unit-by-unit decoding function (boundary invariant, per-iteration step incl. the post statement, termination, all "
      "indexing in bounds; the skip after numeric escapes was found here and fixed, panics on invalid escapes are a known finding); structural facts of the printers "
      "(offset prefixes, separators, Bytes item list, tuple attribute names, Dict entries) via a ghost output string." + COMMON,
      "Per-rune escape round trip of reprEscape, Relation Format and number text are not decided; the lexer guarantee lexOK(s) is assumed." + NOTE_COMMON,
      "DESIGN.md 4.C12, 10")
claim("C13",
      "//bits.set safety/termination/error clause, Translator.FromArrai error clauses and jsonEscape/jsonUnescape kind clauses, with the silent changes and crashes "
      "of the unchanged tree as known findings." + COMMON,
      "Also //bits.mask, FromArrai's number range, ToArrai kind clauses and the CSV encoder/decoder cell clauses (second wave). mask∘set as one theorem, YAML and "
      "the halves inside encoding/json, encoding/csv are not decided; bit-operation axioms are assumed." + NOTE_COMMON,
      "DESIGN.md 4.C13, 10, 11")
claim("C14",
      "//seq array matchers against the textbook window definition: search (sound, least, complete, terminating — its restart defect is a known finding), "
      "contains/has_prefix/has_suffix/trim for dense arrays (has_suffix compared only the last element: found here and fixed), array join's kind and total length, "
      "safety+frame+termination of split/sub/repeat, dispatch wrappers return errors on mismatched kinds." + COMMON,
      "String/Bytes branches rely on assumed contracts of strings/bytes; positional clauses of join and functional split/sub are not claimed." + NOTE_COMMON,
      "DESIGN.md 4.C14, 10")
claim("C16",
      "Confinement: on every path of compilePackage/importLocalFile that reaches a file reader the path satisfies underdir(path, importroot), from uninterpreted "
      "path predicates and assumed lemmas about path.Clean/filepath.Join/strings.* (checked against the Go library on 87k strings); the whitespace-trim escape is a known finding." + COMMON,
      "Equal values for different spellings, cycle detection and symlinks are not decided; the path lemmas are assumptions about the Go library." + NOTE_COMMON,
      "DESIGN.md 4.C16, 10")
claim("C17",
      "The actor loop of the engine verified arm by arm: exactly one reply per update request, state installed iff the update succeeded, every watcher notified with "
      "the new state, no send on an actor-only channel from the actor goroutine (the wedge is a known finding), non-nil watcher before close (the double-cancel crash was "
      "found here and fixed), observers identified by their own id." + COMMON,
      "Client interleavings and cross-goroutine ordering are not decided; channel operations are events, `go`/`select` are not interleaved." + NOTE_COMMON,
      "DESIGN.md 4.C17, 10")
claim("C18",
      "Authority contracts: `auth` is required by the full library, file/network/exec operations; every Eval implementer, the //eval bodies and every native function "
      "registered in the safe library is verified without it (static call-graph propagation for helpers); a sandbox's scope binds `//` to exactly the configured library. "
      "Found here and fixed: //deprecated.exec in the safe library, //eval.value using the full library. Still open (known findings): the fallback of `//` to the full "
      "library in an empty scope, imports resolved at compile time." + COMMON,
      "The classification table of authority-bearing dependency functions (95_auth.spec) is an assumption." + NOTE_COMMON,
      "DESIGN.md 4.C18, 10")
claim("C19",
      "Effect contracts on pkg/arrai/out.go with ghost filesystem state: dry run performs no mutation, every mutated path stays under PATH, unsupported entries are "
      "errors, validation precedes effects, mutator/observer errors are propagated; seven defects of the unchanged tree are known findings." + COMMON,
      "Byte-exact tree equality and deferred Close errors are not decided; afero methods are classified by assumed extern contracts." + NOTE_COMMON,
      "DESIGN.md 4.C19, 10")
claim("C20",
      "calcStats totals and runFailed, Report's error iff failure, literal true/false classification, one result per leaf, ForeachLeaf recursion with a callback "
      "contract (nil leaves from sparse arrays crashed the runner: found here and fixed)." + COMMON,
      "Directory walk, report formatting and path strings are not decided." + NOTE_COMMON,
      "DESIGN.md 4.C20, 10")

NA["C15"] = "whole-pipeline equality of two executions (bundle vs. source tree) through archive/zip, afero zipfs, filepath and the module cache: no per-function contract within reach expresses it without a filesystem model, and proving a model is a different technique (DESIGN.md section 5)"
