# Claims table for MANIFEST.json (exec'd by mkmanifest.py). Keep in step with DESIGN.md §0/§4.

PENDING = "contracts for this property are not yet under proof in this commit (machinery is being built; see DESIGN.md section 8 for the build order); nothing is claimed until its obligations discharge on the unchanged tree"

claim("C14",
      "Deductive proof, per function and for all inputs, of the //seq array matchers against the textbook window definition: search returns a position where the pattern occurs (soundness) with all index arithmetic in bounds; obligations generated from the SSA of the real functions on every run.",
      "Proved: the clauses tagged C14 in syntax/verif_contracts.go. Assumed: the interface-level meaning of Value.Equal as a pure function eq(a,b); mathematical integers. Not decided here: string/bytes branches that delegate to the Go strings/bytes packages.",
      "DESIGN.md 4.C14")

for p in ["C01", "C02", "C03", "C04", "C05", "C06", "C07", "C08", "C09", "C10", "C11", "C12", "C13", "C16", "C17", "C18", "C19", "C20"]:
    NA[p] = PENDING
NA["C15"] = "whole-pipeline equality of two executions (bundle vs. source tree) through archive/zip, afero zipfs, filepath and the module cache: no per-function contract within reach expresses it without a filesystem model, and proving a model is a different technique (DESIGN.md section 5)"
