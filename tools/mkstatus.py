#!/usr/bin/env python3
"""Regenerates the machine-derived parts of DESIGN.md (between the markers `<!-- BEGIN:<name> -->` / `<!-- END:<name> -->`):
  unclaimed  — functions with withdrawn obligations (from unclaimed.json)
  findings   — defects by property (from known_findings.json)
  seeded     — seeded changes and the checks that catch them (from seeded/*/meta.json + check_result.json)
Run by hand at integration time, never by a check."""
import collections, glob, json, os, re, sys
V = '/verif'

def fn_of(ob):
    ob = ob.replace('\\', '')
    return re.split(r'/(?=(post\.|pre@|inv\.|safe\.|frame\.|dec\.|iter\.|step\.|static\.|publish@|guard|unsupported|lemma|contract\.|\(|\.\*))', ob)[0]

def unclaimed():
    u = json.load(open(V + '/unclaimed.json'))
    c = collections.Counter(fn_of(e['obligation']) + (' (pattern)' if e.get('regexp') else '') for e in u)
    lines = ['%d entries. Functions with withdrawn obligations (count):' % len(u), '']
    for f, n in sorted(c.items(), key=lambda x: (-x[1], x[0])):
        lines.append('  - `%s`: %d' % (f, n))
    return '\n'.join(lines)

def findings():
    d = json.load(open(V + '/known_findings.json'))['findings']
    by = collections.defaultdict(list)
    for f in d:
        by[f['property']].append(f)
    out = []
    nf = sum(1 for f in d if f['kind'] == 'finding'); nx = sum(1 for f in d if f['kind'] == 'fixed')
    out.append('%d entries: %d open findings (obligation instances), %d fixed.' % (len(d), nf, nx))
    out.append('')
    for p in sorted(by):
        out.append('* **%s**' % p)
        seen = set()
        for f in by[p]:
            w = f['what'].strip()
            k = w[:80]
            if k in seen:
                continue
            seen.add(k)
            pre = '(fixed %s) ' % f.get('commit', '') if f['kind'] == 'fixed' else ''
            w1 = w if len(w) <= 260 else w[:257] + '...'
            out.append('  - %s`%s` — %s' % (pre, f['obligation'], w1))
    return '\n'.join(out)

def seeded():
    rows = []
    for d in sorted(glob.glob(V + '/seeded/C*')):
        sid = os.path.basename(d)
        try:
            meta = json.load(open(d + '/meta.json'))
        except Exception:
            continue
        res = {}
        if os.path.exists(d + '/check_result.json'):
            res = json.load(open(d + '/check_result.json'))
        viol = res.get('violations', [])
        verdict = 'missed'
        by = ''
        if res.get('exit') == 1 and viol:
            verdict = 'caught'
            by = './check %s quick' % meta['property']
        elif res.get('caught_by_other_property'):
            verdict = 'caught (other property)'
            by = './check %s quick' % res['caught_by_other_property']['property']
            viol = res['caught_by_other_property']['violations']
        elif not res:
            verdict = 'not run'
        elif res.get('exit') not in (0, 1):
            verdict = 'error (exit %s)' % res.get('exit')
        obl = ', '.join(sorted({re.sub(r'.*obligation=(\S+).*', r'\1', v) for v in viol})[:2])
        what = (meta.get('summary') or meta.get('description') or meta.get('what') or '').strip().replace('\n', ' ')
        files = ', '.join(meta.get('files', [])) if isinstance(meta.get('files'), list) else ''
        rows.append('| %s | %s | %s | %s | %s |' % (sid, (what[:110] + '…') if len(what) > 110 else what, verdict, by, ('`' + obl + '`') if obl else ''))
    head = ['| seed | change | verdict | caught by | failing obligation(s) |', '|---|---|---|---|---|']
    return '\n'.join(head + rows)

def fixes():
    import subprocess
    out = subprocess.run(['git', '-C', '/repo', 'log', '--reverse', '--format=%h\t%s'], capture_output=True, text=True).stdout
    rows = ['| commit | repair |', '|---|---|']
    for l in out.splitlines():
        h, _, subj = l.partition('\t')
        if subj.startswith('fix:'):
            rows.append('| %s | %s |' % (h, subj[4:].strip().replace('|', '/')))
    return '%d `fix:` commits:\n\n' % (len(rows) - 2) + '\n'.join(rows)

def refactors():
    f = V + '/refactors/RESULTS.txt'
    if not os.path.exists(f):
        return '(not run yet)'
    return '```\n' + open(f).read().rstrip('\n') + '\n```'

def main():
    p = V + '/DESIGN.md'
    s = open(p).read()
    for name, fn in (('unclaimed', unclaimed), ('findings', findings), ('seeded', seeded), ('refactors', refactors), ('fixes', fixes)):
        b, e = '<!-- BEGIN:%s -->' % name, '<!-- END:%s -->' % name
        if b in s and e in s:
            i, j = s.index(b) + len(b), s.index(e)
            s = s[:i] + '\n' + fn() + '\n' + s[j:]
        else:
            print('marker missing:', name)
    open(p, 'w').write(s)

if __name__ == '__main__':
    main()
