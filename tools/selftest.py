#!/usr/bin/env python3
"""Must-fail corpus: applies every mutant of /verif/selftest/*.json (and /verif/seeded/*/patch.diff when
--seeded) to a scratch copy of /repo and checks that the obligation(s) it is expected to break are no
longer discharged. A mutant that is not detected is a contract or engine hole.

usage: selftest.py [-j N] [pattern ...]      exit 0 iff every selected mutant is detected
Scratch copies live under /var/tmp and are removed as soon as each mutant has run."""
import json, glob, os, re, shutil, subprocess, sys, tempfile, concurrent.futures

VERIF = os.environ.get('VERIF_DIR', '/verif')
REPO = os.environ.get('VERIF_REPO', '/repo')
GOVC = os.path.join(VERIF, 'bin', 'govc')

try:
    KF = {f['obligation'] for f in json.load(open(os.path.join(VERIF, 'known_findings.json')))['findings'] if f.get('kind') == 'finding'}
except Exception:
    KF = set()

def base(ob):
    # obligation names may carry SSA block suffixes that move under mutation: compare without them
    return re.sub(r'@[br]\d+', '', ob)   # ... and return ordinals move when a fix adds a return: a clause failing at ANY return counts

def run_mutant(path):
    m = json.load(open(path))
    name = os.path.basename(path)[:-5]
    d = tempfile.mkdtemp(prefix='selftest-', dir='/var/tmp')
    try:
        subprocess.run(['rsync', '-a', '--exclude', '.git', REPO + '/', d + '/'], check=True)
        f = os.path.join(d, m['file'])
        src = open(f).read()
        if src.count(m['old']) != 1:
            return name, 'STALE', 'old text occurs %d times in %s' % (src.count(m['old']), m['file'])
        open(f, 'w').write(src.replace(m['old'], m['new']))
        funcs = sorted({e.split('/')[0] if not e.startswith('pkg/') else '/'.join(e.split('/')[:2]) for e in m['expect']})
        funcs = []
        for e in m['expect']:
            # function key = everything before the last '/<obligation>' component that starts an obligation kind
            k = re.split(r'/(?=(post\.|pre@|inv\.|safe\.|frame\.|dec\.|iter\.|step\.|static\.|publish@|guard|unsupported|lemma|tri|total|atmost|[a-z_]+$))', e)[0]
            if k not in funcs:
                funcs.append(k)
        env = dict(os.environ, VERIF_REPO=d, VERIF_OUT='selftest-' + name, GOFLAGS='-mod=mod', GOPROXY='off')
        env.setdefault('VERIF_PAR', '4')
        p = subprocess.run([GOVC, 'func', '-t', '8'] + funcs, capture_output=True, text=True, env=env, timeout=1500)
        out = p.stdout + p.stderr
        status = {}
        for line in out.splitlines():
            parts = line.split()
            if len(parts) >= 4 and parts[0] in ('unsat', 'sat', 'unknown', 'timeout', 'error', 'disagree', 'toolarge'):
                # name is the token that contains '/'
                for tok in parts[1:]:
                    if '/' in tok and not re.match(r'^(z3|z3-new|cvc5)/', tok) and not re.match(r'^\d+\.\d+s$', tok):
                        if tok in KF and tok not in m['expect']:
                            break   # a listed known finding fails on the unchanged tree too: it proves nothing about the mutant
                        if status.get(base(tok), 'unsat') == 'unsat':  # several back edges share a base name: a failing one wins
                            status[base(tok)] = parts[0]
                        break
        hit = [e for e in m['expect'] if status.get(base(e), 'missing') not in ('unsat',)]
        seen = [e for e in m['expect'] if base(e) in status]
        if not seen:
            # the mutant may have renamed/removed the obligation: any non-unsat obligation of these functions counts
            bad = [k for k, v in status.items() if v != 'unsat' and not k.endswith('|outside-region')]
            if bad:
                return name, 'DETECTED', 'expected obligation absent; failing instead: ' + ', '.join(bad[:3])
            return name, 'MISSED', 'expected obligations not generated and nothing else fails: ' + out[-300:]
        failing = [e for e in seen if status[base(e)] != 'unsat']
        if failing:
            return name, 'DETECTED', ', '.join('%s=%s' % (e, status[base(e)]) for e in failing)
        return name, 'MISSED', 'all expected obligations still discharge'
    except subprocess.TimeoutExpired:
        return name, 'ERROR', 'timeout'
    except Exception as ex:
        return name, 'ERROR', repr(ex)
    finally:
        shutil.rmtree(d, ignore_errors=True)
        shutil.rmtree(os.path.join(VERIF, 'out', 'selftest-' + name), ignore_errors=True)

def main():
    args = sys.argv[1:]
    jobs = 2
    if args[:1] == ['-j']:
        jobs = int(args[1]); args = args[2:]
    files = sorted(glob.glob(os.path.join(VERIF, 'selftest', '*.json')))
    if args:
        files = [f for f in files if any(a in os.path.basename(f) for a in args)]
    res = []
    with concurrent.futures.ThreadPoolExecutor(jobs) as ex:
        for r in ex.map(run_mutant, files):
            print('%-9s %-45s %s' % (r[1], r[0], r[2][:160]), flush=True)
            res.append(r)
    missed = [r for r in res if r[1] != 'DETECTED']
    print('selftest: %d mutants, %d detected, %d not' % (len(res), len(res) - len(missed), len(missed)))
    json.dump([{'mutant': r[0], 'result': r[1], 'detail': r[2]} for r in res], open(os.path.join(VERIF, 'selftest', 'LAST_RUN.json.tmp'), 'w'), indent=1)
    os.replace(os.path.join(VERIF, 'selftest', 'LAST_RUN.json.tmp'), os.path.join(VERIF, 'selftest', 'LAST_RUN.txt'))
    sys.exit(1 if missed else 0)

if __name__ == '__main__':
    main()
