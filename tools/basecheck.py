#!/usr/bin/env python3
"""basecheck.py <repo_dir> [pkg ...]: runs `go test -json` for the packages (default ./...) and reports every test of the
pinned baseline's stable_pass list (/root/.vp/BASELINE.json) in those packages that does not pass."""
import json, subprocess, sys
repo = sys.argv[1]; pkgs = sys.argv[2:] or ['./...']
b = json.load(open('/root/.vp/BASELINE.json'))
p = subprocess.run(['go', 'test', '-json', '-vet=off', '-count=1', '-timeout', '25m'] + pkgs, cwd=repo, capture_output=True, text=True)
st = {}; seenpk = set()
for l in p.stdout.splitlines():
    try: e = json.loads(l)
    except Exception: continue
    if e.get('Package'): seenpk.add(e['Package'])
    if e.get('Test') and e.get('Action') in ('pass', 'fail', 'skip'):
        st[e['Package'] + '::' + e['Test']] = e['Action']
bad = [t for t in b['stable_pass'] if t.split('::')[0] in seenpk and st.get(t) != 'pass']
print('packages: %d, stable tests in them: %d, not passing: %d' % (len(seenpk), sum(1 for t in b['stable_pass'] if t.split('::')[0] in seenpk), len(bad)))
for t in bad[:20]: print('  NOT PASSING', t, st.get(t))
sys.exit(1 if bad else 0)
