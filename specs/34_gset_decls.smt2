; (w-c19) declarations of gcount / ghas, placed before 35_sets.smt2 because its definition axioms mention them
; (prelude items are emitted in file order). Meaning: results of (rel.GenericSet).Count / Has on the boxed set.
(declare-fun gcount (Val) Int)
(declare-fun ghas (Val Val) Bool)
