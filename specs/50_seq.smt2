; ---- C14 (worker w-c14): sequence matching over heap rows of interface values -----------------------
; winV a ao an b bo bn j: the sequence b[bo .. bo+bn) occurs in a[ao .. ao+an) at position j, element-
; wise Equal (eq). This is the `window` macro of 10_rel.spec as a named predicate, so that quantifiers
; over the position j have a usable trigger (the inner quantifier ranges over ABSOLUTE positions i of b so
; that its pattern binds the whole index term). The axiom below is its DEFINITION (not an assumption
; about arr.ai); `:named def.winV` makes it accompany every use of winV (engine/prelude_defs.go).
(declare-fun winV ((Array Int Val) Int Int (Array Int Val) Int Int Int) Bool)
(assert (! (forall ((a (Array Int Val)) (ao Int) (an Int) (b (Array Int Val)) (bo Int) (bn Int) (j Int))
  (! (= (winV a ao an b bo bn j)
        (and (<= 0 j) (<= (+ j bn) an)
             (forall ((i Int)) (! (=> (and (<= bo i) (< i (+ bo bn))) (eq (select a (+ ao (+ j (- i bo)))) (select b i)))
                                  :pattern ((select b i))))))
     :pattern ((winV a ao an b bo bn j)))) :named def.winV))
; ---- meaning of Value.IsTrue (istrue) on rel.Array: refinement of the interface-level function by the
; concrete method, whose contract `result == (a.count > 0)` is proved ((rel.Array).IsTrue, rel/verif_contracts.go).
; (EmptySet / TrueSet: 70_fs.smt2.)
(assert (forall ((v Val)) (! (=> (= (tagof v) tag.rel.Array) (= (istrue v) (> (pj.rel.Array.5.count v) 0))) :pattern ((istrue v)))))
; nnV a lo hi: the row a has no nil entry at the absolute positions lo <= i < hi (DEFINITION; the pattern
; binds the whole index term, so instances are found however the solver normalises index arithmetic).
(declare-fun nnV ((Array Int Val) Int Int) Bool)
(assert (! (forall ((a (Array Int Val)) (lo Int) (hi Int))
  (! (= (nnV a lo hi)
        (forall ((i Int)) (! (=> (and (<= lo i) (< i hi)) (not (= (select a i) nilVal))) :pattern ((select a i)))))
     :pattern ((nnV a lo hi)))) :named def.nnV))
; winI: as winV for rows of integers (bytes / runes), elementwise =. DEFINITION.
(declare-fun winI ((Array Int Int) Int Int (Array Int Int) Int Int Int) Bool)
(assert (! (forall ((a (Array Int Int)) (ao Int) (an Int) (b (Array Int Int)) (bo Int) (bn Int) (j Int))
  (! (= (winI a ao an b bo bn j)
        (and (<= 0 j) (<= (+ j bn) an)
             (forall ((i Int)) (! (=> (and (<= bo i) (< i (+ bo bn))) (= (select a (+ ao (+ j (- i bo)))) (select b i)))
                                  :pattern ((select b i))))))
     :pattern ((winI a ao an b bo bn j)))) :named def.winI))
; ---- x-c01: textbook shape of //seq.join on arrays ------------------------------------------------------
; alenV v: number of items of the sequence value v (an Array's value slice; 0 for the empty set). DEFINITION.
(declare-fun alenV (Val) Int)
(assert (! (forall ((v Val)) (! (= (alenV v) (ite (= (tagof v) tag.rel.Array) (pj.rel.Array.2.values_len v) 0)) :pattern ((alenV v)))) :named def.alenV))
; jstart a lo i jn: position, in the join of the sequences a[lo], a[lo+1], ... with a joiner of length jn, at which
; element i (absolute row position, i >= lo) starts:  jstart(lo) = 0,  jstart(i) = jstart(i-1) + |a[i-1]| + jn.
; So the joiner stands before every element except the first whatever the lengths of the earlier elements are, and
; the join of a[lo..hi) (hi > lo) has length jstart(hi) - jn. DEFINITION (recursive; unfolded at the positions read).
(declare-fun jstart ((Array Int Val) Int Int Int) Int)
(assert (! (forall ((a (Array Int Val)) (lo Int) (jn Int)) (! (= (jstart a lo lo jn) 0) :pattern ((jstart a lo lo jn)))) :named def.jstart.x01x1))
(assert (! (forall ((a (Array Int Val)) (lo Int) (i Int) (jn Int) (j Int))
  (! (=> (and (< lo i) (= j (- i 1))) (= (jstart a lo i jn) (+ (jstart a lo j jn) (alenV (select a j)) jn)))
     :pattern ((jstart a lo i jn) (select a j)))) :named def.jstart.x01x2))
