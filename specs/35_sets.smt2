; ---- C01/C02 (worker w-c01): the frozen library's sets and maps as mathematical finite sets / maps -----------
; A frozen.Set[Value] / frozen.Map value is a struct {tree{root, count, built}}; its abstract content is a
; function of `root` alone (assumption about the library: count/built are consistent with root).
;   fmem(root, x)   x is an element (up to Equal = eq) of the set with tree root `root`
;   fcard(root)     number of elements
; ASSUMED theory of finite sets over the equivalence eq (holds for every set all of whose elements are
; self-Equal; a NaN number is not: the With/Add contracts in 35_sets.spec promise nothing for it).
(declare-fun fmem (Val Val) Bool)
(declare-fun fcard (Val) Int)
(declare-fun fany (Val) Val)           ; a witness element of a non-empty set
(declare-fun fseteq (Val Val) Bool)    ; the two sets have the same elements
(assert (forall ((r Val) (x Val) (y Val)) (! (=> (and (fmem r x) (eq x y)) (fmem r y)) :pattern ((fmem r x) (eq x y)))))
(assert (forall ((r Val) (x Val)) (! (=> (fmem r x) (eq x x)) :pattern ((fmem r x)))))
(assert (forall ((r Val)) (! (>= (fcard r) 0) :pattern ((fcard r)))))
(assert (forall ((r Val) (x Val)) (! (=> (= (fcard r) 0) (not (fmem r x))) :pattern ((fcard r) (fmem r x)))))
(assert (forall ((r Val)) (! (=> (> (fcard r) 0) (fmem r (fany r))) :pattern ((fcard r)))))
(assert (forall ((r Val) (x Val) (y Val)) (! (=> (and (= (fcard r) 1) (fmem r x) (fmem r y)) (eq x y)) :pattern ((fcard r) (fmem r x) (fmem r y)))))
(assert (forall ((x Val)) (! (not (fmem nilVal x)) :pattern ((fmem nilVal x)))))      ; the zero Set / zero builder is empty
(assert (= (fcard nilVal) 0))
; fseteq: DEFINITION (extensional equality of two frozen sets); skolem witness fdiff for the <= direction
(declare-fun fdiff (Val Val) Val)
(assert (forall ((a Val) (b Val) (x Val)) (! (=> (fseteq a b) (= (fmem a x) (fmem b x))) :pattern ((fseteq a b) (fmem a x)) :pattern ((fseteq a b) (fmem b x)))))
(assert (forall ((a Val) (b Val)) (! (=> (= (fmem a (fdiff a b)) (fmem b (fdiff a b))) (fseteq a b)) :pattern ((fseteq a b)))))
; closure values handed to higher-order set operations (engine/closuredef.go)
(declare-fun holds (Fn Val) Bool)      ; boolean result of f(x)
(declare-fun fimg (Fn Val) Val)        ; value result of f(x)
(declare-fun perr (Fn Val) Val)        ; error result of f(x)
; ---- buckets (routing key of a value: which specialised subset of a UnionSet holds it) ---------------------
(declare-fun bucketOf (Val) Str)       ; v.getBucket().String()
(declare-fun subsetBucket (Val) Str)   ; s.unionSetSubsetBucket()
(declare-fun emptyTupleV () Val)       ; the package variable rel.EmptyTuple (globalfact in rel/verif_contracts_c01.go)
(declare-fun genericTypeV () Val)      ; the package variable rel.genericType
(declare-fun genericBkt () Str)        ; genericType.String()
; (strof(genericTypeV) == genericBkt is stated by the globalfact for rel.genericType: strof is declared later, in 70_fs.smt2)
(assert (not (= genericTypeV nilVal)))
(assert (not (= emptyTupleV nilVal)))
(assert (eq emptyTupleV emptyTupleV))
(assert (= (bucketOf emptyTupleV) genericBkt))                                       ; (*GenericTuple).getBucket: !t.IsTrue() -> genericType
(assert (forall ((x Val) (y Val)) (! (=> (eq x y) (= (bucketOf x) (bucketOf y))) :pattern ((eq x y) (bucketOf x)))))   ; Equal values are routed alike (canonical forms, C02)
; ---- frozen.Map[string, any] (UnionSet.m): partial function Str -> Val ------------------------------------
(declare-fun smhas (Val Str) Bool)
(declare-fun smget (Val Str) Val)
(declare-fun smcard (Val) Int)
(declare-fun smany (Val) Str)
(assert (forall ((r Val)) (! (>= (smcard r) 0) :pattern ((smcard r)))))
(assert (forall ((r Val) (k Str)) (! (=> (= (smcard r) 0) (not (smhas r k))) :pattern ((smcard r) (smhas r k)))))
(assert (forall ((r Val)) (! (=> (> (smcard r) 0) (smhas r (smany r))) :pattern ((smcard r)))))
(assert (forall ((r Val) (j Str) (k Str)) (! (=> (and (= (smcard r) 1) (smhas r j) (smhas r k)) (= j k)) :pattern ((smcard r) (smhas r j) (smhas r k)))))
(assert (forall ((k Str)) (! (not (smhas nilVal k)) :pattern ((smhas nilVal k)))))
(assert (= (smcard nilVal) 0))
; ---- frozen.Map[Value, any] (Dict.m): partial function Val -> Val, keys up to eq ---------------------------
(declare-fun vmhas (Val Val) Bool)
(declare-fun vmget (Val Val) Val)
(declare-fun vmcard (Val) Int)
(assert (forall ((r Val)) (! (>= (vmcard r) 0) :pattern ((vmcard r)))))
(assert (forall ((r Val) (k Val)) (! (=> (= (vmcard r) 0) (not (vmhas r k))) :pattern ((vmcard r) (vmhas r k)))))
(assert (forall ((r Val) (j Val) (k Val)) (! (=> (and (vmhas r j) (eq j k)) (and (vmhas r k) (= (vmget r j) (vmget r k)))) :pattern ((vmhas r j) (eq j k)))))
(assert (forall ((k Val)) (! (not (vmhas nilVal k)) :pattern ((vmhas nilVal k)))))
(assert (= (vmcard nilVal) 0))
; ---- abstract membership umem (30_values.smt2) on the frozen-backed representations -------------------------
; GenericSet{set}: membership in the frozen set.  TrueSet: exactly the empty tuple.
(assert (! (forall ((v Val) (x Val)) (! (=> (= (tagof v) tag.rel.GenericSet) (= (umem v x) (fmem (pj.rel.GenericSet.0.set_tree_root v) x))) :pattern ((umem v x)))) :named def.umem.w01x1))
(assert (! (forall ((v Val) (x Val)) (! (=> (= (tagof v) tag.rel.TrueSet) (= (umem v x) (eq x emptyTupleV))) :pattern ((umem v x)))) :named def.umem.w01x2))
; scard(v): the number of members of set value v (meaning of Set.Count at interface level)
(declare-fun scard (Val) Int)
(assert (forall ((v Val)) (! (>= (scard v) 0) :pattern ((scard v)))))
(assert (! (forall ((v Val)) (! (=> (= (tagof v) tag.rel.GenericSet) (= (scard v) (fcard (pj.rel.GenericSet.0.set_tree_root v)))) :pattern ((scard v)))) :named def.scard.w01x1))
(assert (forall ((v Val)) (! (=> (= (tagof v) tag.rel.EmptySet) (= (scard v) 0)) :pattern ((scard v)))))
(assert (forall ((v Val)) (! (=> (= (tagof v) tag.rel.TrueSet) (= (scard v) 1)) :pattern ((scard v)))))
; ---- C02: extensional meaning of Equal (eq) on the frozen-backed set representations ---------------------------
; Under the canonical-form invariant a GenericSet is Equal exactly to the GenericSets with the same members;
; EmptySet / TrueSet are unit types.
(assert (forall ((a Val) (b Val)) (! (=> (= (tagof a) tag.rel.GenericSet)
  (= (eq a b) (and (= (tagof b) tag.rel.GenericSet) (fseteq (pj.rel.GenericSet.0.set_tree_root a) (pj.rel.GenericSet.0.set_tree_root b)))))
  :pattern ((eq a b)))))
(assert (forall ((a Val) (b Val)) (! (=> (= (tagof a) tag.rel.EmptySet) (= (eq a b) (= (tagof b) tag.rel.EmptySet))) :pattern ((eq a b)))))
(assert (forall ((a Val) (b Val)) (! (=> (= (tagof a) tag.rel.TrueSet) (= (eq a b) (= (tagof b) tag.rel.TrueSet))) :pattern ((eq a b)))))
; gcount / ghas (75_test.smt2, w-c19) are the results of GenericSet.Count / Has: DEFINITIONS in terms of the frozen set
(assert (forall ((v Val)) (! (=> (= (tagof v) tag.rel.GenericSet) (= (gcount v) (fcard (pj.rel.GenericSet.0.set_tree_root v)))) :pattern ((gcount v)))))
(assert (forall ((v Val) (x Val)) (! (=> (= (tagof v) tag.rel.GenericSet) (= (ghas v x) (fmem (pj.rel.GenericSet.0.set_tree_root v) x))) :pattern ((ghas v x)))))
; membership respects Equal for every representation (for the slice-backed ones this follows from the tuple axioms)
(assert (forall ((v Val) (x Val) (y Val)) (! (=> (and (umem v x) (eq x y)) (umem v y)) :pattern ((umem v x) (eq x y)))))
; routing keys of the generic family (bodies: genericType.String(); proved for GenericSet/EmptySet/TrueSet.unionSetSubsetBucket)
(assert (forall ((v Val)) (! (=> (or (= (tagof v) tag.rel.GenericSet) (= (tagof v) tag.rel.EmptySet) (= (tagof v) tag.rel.TrueSet)) (= (subsetBucket v) genericBkt)) :pattern ((subsetBucket v)))))
; ---- Dict{m}: entries (@:k, @value:v); the stored value of a key is either one Value or a rel.multipleValues (a
; frozen.Set[Value] of >= 2 values). Denotation of a Dict value (umem) and its cardinality dcard(root):
(assert (! (forall ((v Val) (x Val)) (! (=> (= (tagof v) tag.rel.Dict)
  (= (umem v x) (and (= (tagof x) tag.rel.DictEntryTuple)
                     (vmhas (pj.rel.Dict.0.m_tree_root v) (pj.rel.DictEntryTuple.0.at x))
                     (ite (= (tagof (vmget (pj.rel.Dict.0.m_tree_root v) (pj.rel.DictEntryTuple.0.at x))) tag.rel.multipleValues)
                          (fmem (pj.rel.multipleValues.0.tree_root (vmget (pj.rel.Dict.0.m_tree_root v) (pj.rel.DictEntryTuple.0.at x))) (pj.rel.DictEntryTuple.1.value x))
                          (eq (vmget (pj.rel.Dict.0.m_tree_root v) (pj.rel.DictEntryTuple.0.at x)) (pj.rel.DictEntryTuple.1.value x))))))
  :pattern ((umem v x)))) :named def.umem.w01x3))
; dcard(root) = number of (key, value) pairs = sum over the keys of the number of values stored under the key.
; Only these consequences are used: it is the number of keys exactly when no key is multi-valued.
(declare-fun dcard (Val) Int)
(declare-fun dmulti (Val) Val)         ; witness: a multi-valued key, if there is one
(assert (! (forall ((r Val)) (! (>= (dcard r) (vmcard r)) :pattern ((dcard r)))) :named def.dcard.w01x1))
(assert (! (forall ((r Val) (k Val)) (! (=> (and (vmhas r k) (= (tagof (vmget r k)) tag.rel.multipleValues)) (> (dcard r) (vmcard r))) :pattern ((dcard r) (vmhas r k)))) :named def.dcard.w01x2))
(assert (! (forall ((r Val)) (! (=> (not (and (vmhas r (dmulti r)) (= (tagof (vmget r (dmulti r))) tag.rel.multipleValues))) (= (dcard r) (vmcard r))) :pattern ((dcard r)))) :named def.dcard.w01x3))
(assert (! (forall ((v Val)) (! (=> (= (tagof v) tag.rel.Dict) (= (scard v) (dcard (pj.rel.Dict.0.m_tree_root v)))) :pattern ((scard v)))) :named def.scard.w01x2))
; istrue (Value.IsTrue) on the frozen-backed set representations (bodies: Count() > 0 / !m.IsEmpty(); GenericSet.IsTrue is proved against it)
(assert (forall ((v Val)) (! (=> (= (tagof v) tag.rel.GenericSet) (= (istrue v) (> (fcard (pj.rel.GenericSet.0.set_tree_root v)) 0))) :pattern ((istrue v)))))
(assert (forall ((v Val)) (! (=> (= (tagof v) tag.rel.UnionSet) (= (istrue v) (> (smcard (pj.rel.UnionSet.0.m_tree_root v)) 0))) :pattern ((istrue v)))))
; ---- routing keys of the sugar families (bodies: getBucket returns stringCharTupleType / arrayItemTupleType /
; bytesByteTupleType / dictEntryTupleType; String/Array/Bytes/Dict.unionSetSubsetBucket return that type's String()).
; ASSUMED here (reflect.Type names of distinct types are distinct); lets callers establish routed(..)/validSet2 for
; canonical String / Array / Bytes values.
(declare-fun strBkt () Str)
(declare-fun arrBkt () Str)
(declare-fun bytesBkt () Str)
(declare-fun dictBkt () Str)
(assert (distinct genericBkt strBkt arrBkt bytesBkt dictBkt))
(assert (forall ((x Val)) (! (=> (= (tagof x) tag.rel.StringCharTuple) (= (bucketOf x) strBkt)) :pattern ((bucketOf x)))))
(assert (forall ((x Val)) (! (=> (= (tagof x) tag.rel.ArrayItemTuple) (= (bucketOf x) arrBkt)) :pattern ((bucketOf x)))))
(assert (forall ((x Val)) (! (=> (= (tagof x) tag.rel.BytesByteTuple) (= (bucketOf x) bytesBkt)) :pattern ((bucketOf x)))))
(assert (forall ((x Val)) (! (=> (= (tagof x) tag.rel.DictEntryTuple) (= (bucketOf x) dictBkt)) :pattern ((bucketOf x)))))
(assert (forall ((v Val)) (! (=> (= (tagof v) tag.rel.String) (= (subsetBucket v) strBkt)) :pattern ((subsetBucket v)))))
(assert (forall ((v Val)) (! (=> (= (tagof v) tag.rel.Array) (= (subsetBucket v) arrBkt)) :pattern ((subsetBucket v)))))
(assert (forall ((v Val)) (! (=> (= (tagof v) tag.rel.Bytes) (= (subsetBucket v) bytesBkt)) :pattern ((subsetBucket v)))))
(assert (forall ((v Val)) (! (=> (= (tagof v) tag.rel.Dict) (= (subsetBucket v) dictBkt)) :pattern ((subsetBucket v)))))
; ---- x-c01 additions --------------------------------------------------------------------------------------------
; Equal set values have the same number of members (ASSUMED: consequence of extensional equality, C02, and of
; count = number of distinct members, C01; used by syntax.subsetOrSuperset only).
(assert (forall ((a Val) (b Val)) (! (=> (eq a b) (= (scard a) (scard b))) :pattern ((eq a b) (scard a)) :pattern ((eq a b) (scard b)))))
; (not added: bucketOf(v) == genericBkt for every set-valued tag — needed only by the PowerSet draft in rel/verif_contracts_c01.go;
;  left out until PowerSet is under contract: an axiom with pattern (bucketOf v) and an 8-way antecedent is instantiated in every routed(..) query)
