; Core sorts of the govc encoding.
(declare-sort Val 0)      ; Go interface values (rel.Value, rel.Set, error, ...) incl. nil
(declare-sort Str 0)      ; Go strings (uninterpreted; slen/sat give length and bytes)
(declare-sort Fn 0)       ; Go function values
(define-sort F () (_ FloatingPoint 11 53))   ; float64
(declare-fun nilVal () Val)
(declare-fun nilFn () Fn)
(declare-fun emptyStr () Str)
(define-fun fzero () F ((_ to_fp 11 53) RNE 0.0))
(declare-fun tagof (Val) Int)      ; dynamic type tag; 0 only for nil
(assert (= (tagof nilVal) 0))
(assert (forall ((v Val)) (! (>= (tagof v) 0) :pattern ((tagof v)))))
(assert (forall ((v Val)) (! (=> (= (tagof v) 0) (= v nilVal)) :pattern ((tagof v)))))
; strings
(declare-fun slen (Str) Int)
(declare-fun sat (Str Int) Int)
(assert (= (slen emptyStr) 0))
(assert (forall ((s Str)) (! (>= (slen s) 0) :pattern ((slen s)))))
(assert (forall ((s Str) (i Int)) (! (and (<= 0 (sat s i)) (<= (sat s i) 255)) :pattern ((sat s i)))))
(declare-fun sconcat (Str Str) Str)
(assert (forall ((a Str) (b Str)) (! (= (slen (sconcat a b)) (+ (slen a) (slen b))) :pattern ((sconcat a b)))))
(declare-fun ssub (Str Int Int) Str)   ; s[lo:hi]
(assert (forall ((s Str) (lo Int) (hi Int)) (! (=> (<= lo hi) (= (slen (ssub s lo hi)) (- hi lo))) :pattern ((ssub s lo hi)))))   ; guarded (w-c12): unguarded it contradicts slen >= 0 for hi < lo
(assert (forall ((s Str) (lo Int) (hi Int) (i Int)) (! (= (sat (ssub s lo hi) i) (sat s (+ lo i))) :pattern ((sat (ssub s lo hi) i)))))
(declare-fun slt (Str Str) Bool)       ; lexicographic byte order
; Go integer division / remainder (truncated)
(define-fun godiv ((a Int) (b Int)) Int (ite (>= a 0) (ite (> b 0) (div a b) (- (div a (- b)))) (ite (> b 0) (- (div (- a) b)) (div (- a) (- b)))))
(define-fun gomod ((a Int) (b Int)) Int (- a (* b (godiv a b))))
; float <-> int
(declare-fun i2f (Int) F)
(declare-fun f2i (F) Int)
; bit operations on mathematical integers (uninterpreted unless a lemma file defines more)
(declare-fun bitand (Int Int) Int)
(declare-fun bitor (Int Int) Int)
(declare-fun bitxor (Int Int) Int)
(declare-fun shl (Int Int) Int)
(declare-fun shr (Int Int) Int)
; UTF-8 decoding as done by `for i, r := range s` (assumed contract of the Go runtime)
(declare-fun runeAt (Str Int) Int)      ; rune decoded at byte position i (0xFFFD for invalid encodings)
(declare-fun runeWidth (Str Int) Int)   ; bytes consumed at position i
(assert (forall ((s Str) (i Int)) (! (and (<= 1 (runeWidth s i)) (<= (runeWidth s i) 4)) :pattern ((runeWidth s i)))))
(assert (forall ((s Str) (i Int)) (! (and (<= 0 (runeAt s i)) (<= (runeAt s i) 1114111)) :pattern ((runeAt s i)))))
(assert (forall ((s Str) (i Int)) (! (=> (< (sat s i) 128) (and (= (runeAt s i) (sat s i)) (= (runeWidth s i) 1))) :pattern ((runeAt s i)))))
(assert (forall ((s Str) (i Int)) (! (=> (and (<= 0 i) (< i (slen s))) (<= (+ i (runeWidth s i)) (slen s))) :pattern ((runeWidth s i)))))
; all-zero rows for freshly made slices of interface / string / func elements
(declare-fun zeroRowV () (Array Int Val))
(assert (forall ((i Int)) (! (= (select zeroRowV i) nilVal) :pattern ((select zeroRowV i)))))
(declare-fun zeroRowS () (Array Int Str))
(assert (forall ((i Int)) (! (= (select zeroRowS i) emptyStr) :pattern ((select zeroRowS i)))))
(declare-fun zeroRowFn () (Array Int Fn))
(assert (forall ((i Int)) (! (= (select zeroRowFn i) nilFn) :pattern ((select zeroRowFn i)))))
