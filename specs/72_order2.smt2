; ---- C06/C02/C07 wave 2 (worker x-c06): ordering, equality and hashing of the frozen-backed and wrapper values ----
; (file number 72: uses hasattr/tget of 70_fs.smt2 and the vocabulary of 35_sets / 40_order)
;
; -- frozen.Map[string, Value] (GenericTuple.tuple): partial function Str -> Val, content a function of tree.root --
(declare-fun tmhas (Val Str) Bool)
(declare-fun tmget (Val Str) Val)
(declare-fun tmcard (Val) Int)
(declare-fun tmany (Val) Str)
(assert (forall ((r Val)) (! (>= (tmcard r) 0) :pattern ((tmcard r)))))
(assert (forall ((r Val) (k Str)) (! (=> (= (tmcard r) 0) (not (tmhas r k))) :pattern ((tmcard r) (tmhas r k)))))
(assert (forall ((r Val)) (! (=> (> (tmcard r) 0) (tmhas r (tmany r))) :pattern ((tmcard r)))))
(assert (forall ((r Val) (j Str) (k Str)) (! (=> (and (= (tmcard r) 1) (tmhas r j) (tmhas r k)) (= j k)) :pattern ((tmcard r) (tmhas r j) (tmhas r k)))))
(assert (forall ((k Str)) (! (not (tmhas nilVal k)) :pattern ((tmhas nilVal k)))))
(assert (= (tmcard nilVal) 0))
; -- a *rel.GenericTuple value is immutable (C03): its attribute map is a function of the pointer value.
;    tupRoot(v) = the tree root of v.tuple; the link to the heap is the precondition repTuple (72_order2.spec).
(declare-fun tupRoot (Val) Val)
(declare-fun tcount (Val) Int)         ; meaning of Tuple.Count at interface level (generic tuples only)
(declare-fun negTagS () Str)           ; the package variable rel.negateTag ("@neg"), tied by a globalfact
(assert (! (forall ((v Val) (n Str)) (! (=> (= (tagof v) tag.P.rel.GenericTuple) (= (hasattr v n) (tmhas (tupRoot v) n))) :pattern ((hasattr v n)))) :named def.hasattr.x06))
(assert (! (forall ((v Val) (n Str)) (! (=> (= (tagof v) tag.P.rel.GenericTuple) (= (tget v n) (tmget (tupRoot v) n))) :pattern ((tget v n)))) :named def.tget.x06))
(assert (! (forall ((v Val)) (! (=> (= (tagof v) tag.P.rel.GenericTuple) (= (tcount v) (tmcard (tupRoot v)))) :pattern ((tcount v)))) :named def.tcount.x06))
; negInner (40_order.smt2, there abstract): DEFINITION on generic tuples = the value of the single attribute @neg
(assert (! (forall ((v Val)) (! (=> (= (tagof v) tag.P.rel.GenericTuple)
   (= (negInner v) (ite (and (= (tmcard (tupRoot v)) 1) (tmhas (tupRoot v) negTagS)) (tmget (tupRoot v) negTagS) nilVal)))
   :pattern ((negInner v)))) :named def.negInner.x06))
; -- the order on generic tuples (C06): (@neg: x) < (@neg: y) iff y < x (STRICT reversal of the payload order)
(assert (forall ((a Val) (b Val)) (! (=> (and (= (tagof a) tag.P.rel.GenericTuple) (not (= (negInner a) nilVal))
                                                 (= (tagof b) tag.P.rel.GenericTuple) (not (= (negInner b) nilVal)) (= (kind a) (kind b)))
   (= (less a b) (less (negInner b) (negInner a)))) :pattern ((less a b)))))
; different kinds: the shared kind rule
(assert (forall ((a Val) (b Val)) (! (=> (and (= (tagof a) tag.P.rel.GenericTuple) (not (= (kind a) (kind b))))
   (= (less a b) (< (kind a) (kind b)))) :pattern ((less a b)))))
; -- hashing -------------------------------------------------------------------------------------------------
; tmhash(root, seed): frozen.Map[string,Value].Hash (ASSUMED of the library: a function of the map's CONTENT, i.e. of the
; name -> value function up to Equal of the values; independent of insertion / enumeration order)
(declare-fun tmhash (Val Int) Int)
(declare-fun tmhash.diff (Val Val) Str)     ; skolem: a name at which two maps differ, if any
(assert (forall ((a Val) (b Val) (s Int)) (! (=> (and (= (tmhas a (tmhash.diff a b)) (tmhas b (tmhash.diff a b)))
                                                       (=> (tmhas a (tmhash.diff a b)) (eq (tmget a (tmhash.diff a b)) (tmget b (tmhash.diff a b)))))
                                                  (= (tmhash a s) (tmhash b s))) :pattern ((tmhash a s) (tmhash b s)))))
; hashv (Value.Hash at interface level) on the types put under contract here: DEFINITIONS
(assert (! (forall ((v Val) (s Int)) (! (=> (= (tagof v) tag.P.rel.GenericTuple) (= (hashv v s) (tmhash (tupRoot v) s))) :pattern ((hashv v s)))) :named def.hashv.x06tuple))
(assert (forall ((v Val) (s Int)) (! (=> (= (tagof v) tag.rel.EmptySet) (= (hashv v s) s)) :pattern ((hashv v s)))))
; bitxor (00_core.smt2) is exclusive-or on machine words: associative, commutative, 0 is neutral (facts of the Go language)
(assert (forall ((a Int) (b Int) (c Int)) (! (= (bitxor (bitxor a b) c) (bitxor a (bitxor b c))) :pattern ((bitxor (bitxor a b) c)))))
(assert (forall ((a Int) (b Int)) (! (= (bitxor a b) (bitxor b a)) :pattern ((bitxor a b)))))
(assert (forall ((a Int)) (! (= (bitxor a 0) a) :pattern ((bitxor a 0)))))
; -- equality of generic tuples (C02): same names, pairwise Equal values -----------------------------------------
(declare-fun hasattr.diff (Val Val) Str)    ; skolem: a name at which two tuples differ, if any
(assert (forall ((a Val) (b Val) (n Str)) (! (=> (and (= (tagof a) tag.P.rel.GenericTuple) (= (tagof b) tag.P.rel.GenericTuple) (eq a b))
   (and (= (hasattr a n) (hasattr b n)) (=> (hasattr a n) (eq (tget a n) (tget b n))))) :pattern ((eq a b) (hasattr a n)) :pattern ((eq a b) (hasattr b n)))))
(assert (forall ((a Val) (b Val)) (! (=> (and (= (tagof a) tag.P.rel.GenericTuple) (= (tagof b) tag.P.rel.GenericTuple)
        (= (hasattr a (hasattr.diff a b)) (hasattr b (hasattr.diff a b))) (=> (hasattr a (hasattr.diff a b)) (eq (tget a (hasattr.diff a b)) (tget b (hasattr.diff a b)))))
   (eq a b)) :pattern ((eq a b)))))
; -- finite maps: a sub-map with the same number of keys has the same keys (used for one-sided comparison loops) --
(declare-fun smcard.subw (Val Val) Str)     ; skolem: a key of r1 that is not a key of r2, if any
(assert (forall ((r1 Val) (r2 Val) (k Str)) (! (=> (and (= (smcard r1) (smcard r2)) (=> (smhas r1 (smcard.subw r1 r2)) (smhas r2 (smcard.subw r1 r2))) (smhas r2 k)) (smhas r1 k))
   :pattern ((smcard r1) (smcard r2) (smhas r2 k)))))
(assert (forall ((r1 Val) (r2 Val)) (! (=> (and (=> (smhas r1 (smcard.subw r1 r2)) (smhas r2 (smcard.subw r1 r2))) (=> (smhas r2 (smcard.subw r2 r1)) (smhas r1 (smcard.subw r2 r1)))) (= (smcard r1) (smcard r2)))
   :pattern ((smcard r1) (smcard r2)))))
; -- equality of UnionSets (C02): same bucket keys, pairwise Equal subsets ---------------------------------------
(declare-fun smget.udiff (Val Val) Str)
(assert (forall ((a Val) (b Val) (k Str)) (! (=> (and (= (tagof a) tag.rel.UnionSet) (eq a b))
   (and (= (tagof b) tag.rel.UnionSet)
        (= (smhas (pj.rel.UnionSet.0.m_tree_root a) k) (smhas (pj.rel.UnionSet.0.m_tree_root b) k))
        (=> (smhas (pj.rel.UnionSet.0.m_tree_root a) k) (eq (smget (pj.rel.UnionSet.0.m_tree_root a) k) (smget (pj.rel.UnionSet.0.m_tree_root b) k)))))
   :pattern ((eq a b) (smhas (pj.rel.UnionSet.0.m_tree_root a) k)) :pattern ((eq a b) (smhas (pj.rel.UnionSet.0.m_tree_root b) k)))))
(assert (forall ((a Val) (b Val)) (! (=> (and (= (tagof a) tag.rel.UnionSet) (= (tagof b) tag.rel.UnionSet)
        (= (smhas (pj.rel.UnionSet.0.m_tree_root a) (smget.udiff a b)) (smhas (pj.rel.UnionSet.0.m_tree_root b) (smget.udiff a b)))
        (=> (smhas (pj.rel.UnionSet.0.m_tree_root a) (smget.udiff a b)) (eq (smget (pj.rel.UnionSet.0.m_tree_root a) (smget.udiff a b)) (smget (pj.rel.UnionSet.0.m_tree_root b) (smget.udiff a b)))))
   (eq a b)) :pattern ((eq a b)))))
; (the reflexive conjunct on the bucket-map root is a tautology: it ties the axiom to queries about UnionSets for the prelude
;  slicer -- keyed on eq/tagof alone it entered EVERY query and made unrelated proofs (ArrayPattern.Bind/inv.0.off2.step) time out)
(assert (forall ((a Val) (b Val)) (! (=> (and (= (tagof a) tag.rel.UnionSet) (not (= (tagof b) tag.rel.UnionSet))
                                                 (= (pj.rel.UnionSet.0.m_tree_root a) (pj.rel.UnionSet.0.m_tree_root a))) (not (eq a b))) :pattern ((eq a b)))))
; -- ordered enumeration (C07): what an ORDERED enumerator yields is a function of the set enumerated ---------------
(declare-fun oseq (Val Int) Val)       ; k-th value produced by an ordered enumeration of set value v
(declare-fun ocount (Val) Int)         ; number of values it produces
(assert (forall ((v Val)) (! (>= (ocount v) 0) :pattern ((ocount v)))))
