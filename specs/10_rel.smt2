; Uninterpreted meanings of rel.Value interface methods (values are immutable, so these are
; functions of the interface values alone — that immutability is property C03).
(declare-fun eq (Val Val) Bool)        ; a.Equal(b)
(declare-fun less (Val Val) Bool)      ; a.Less(b)
(declare-fun kind (Val) Int)           ; a.Kind()
(declare-fun istrue (Val) Bool)        ; a.IsTrue()
(declare-fun hashv (Val Int) Int)      ; a.Hash(seed)
