; ---- C04 vocabulary --------------------------------------------------------------------------------
; bitor on 3-bit values (CombineOp masks OnlyOnLHS=1, InBoth=2, OnlyOnRHS=4): the true bitwise OR, bit by bit.
(assert (forall ((a Int) (b Int)) (! (=> (and (<= 0 a) (< a 8) (<= 0 b) (< b 8))
  (= (bitor a b)
     (+ (ite (or (= (mod a 2) 1) (= (mod b 2) 1)) 1 0)
        (* 2 (ite (or (= (mod (div a 2) 2) 1) (= (mod (div b 2) 2) 1)) 1 0))
        (* 4 (ite (or (= (div a 4) 1) (= (div b 4) 1)) 1 0)))))
  :pattern ((bitor a b)))))
; pwidth(r): the common length of all rows (rel.Values) held by the *positionalRelation r (abstract: the rows
; live in a frozen.Set); ewidth(e): the same for the rows a *positionalRelationValuesEnumerator yields.
(declare-fun pwidth (Int) Int)
(declare-fun ewidth (Int) Int)
; ---- rows of positional relations (x-c04) ---------------------------------------------------------------------
; A "row-like" value is a boxed rel.Values or rel.projectedValues. ASSUMPTION (immutability of rows): the content of a
; row-like value that is stored in / obtained from a frozen collection never changes, so it is a function of the boxed
; value:  rlen(x) = number of columns,  rat(x, k) = k-th column.  The link to the heap is made by the assumed contracts
; of frozen.Iterator[any].Value, (*frozen.SetBuilder[any]).Add and the frozen.Map[any, ...] lookups (60_join.spec).
(declare-fun rlen (Val) Int)
(declare-fun rat (Val Int) Val)
(assert (forall ((x Val)) (! (>= (rlen x) 0) :pattern ((rlen x)))))
; meaning of Values.Equal / projectedValues.Equal on row-like values (bodies: equalValues / EqualProjectedValues, proved
; against exactly this in rel/verif_contracts_c04.go): equal rows have the same width and column-wise Equal values.
(assert (forall ((a Val) (b Val)) (! (=> (and (eq a b) (or (= (tagof a) tag.rel.Values) (= (tagof a) tag.rel.projectedValues)))
  (= (rlen a) (rlen b))) :pattern ((eq a b) (rlen a)) :pattern ((eq a b) (rlen b)))))
(assert (forall ((a Val) (b Val) (k Int)) (! (=> (and (eq a b) (or (= (tagof a) tag.rel.Values) (= (tagof a) tag.rel.projectedValues)) (<= 0 k) (< k (rlen a)))
  (eq (rat a k) (rat b k))) :pattern ((eq a b) (rat a k)) :pattern ((eq a b) (rat b k)))))
; rowset(root): every element STORED in the frozen set with this tree root (the representative an iterator yields, not
; merely something Equal to it) is a rel.Values. Uninterpreted; established by the SetBuilder contracts, consumed by Value().
(declare-fun rowset (Val) Bool)
(assert (rowset nilVal))
; eroot(e): tree root of the set a *positionalRelationValuesEnumerator ranges over
(declare-fun eroot (Int) Val)
; the package variables rel.truePosRel / rel.falsePosRel (two distinct &positionalRelation{...} allocations; globalfacts in
; rel/verif_contracts_c04.go tie the variables to these constants)
(declare-fun truePosRelP () Int)
(declare-fun falsePosRelP () Int)
(assert (not (= truePosRelP falsePosRelP)))
