; ---- C04 vocabulary --------------------------------------------------------------------------------
; bitor on 3-bit values (CombineOp masks OnlyOnLHS=1, InBoth=2, OnlyOnRHS=4): the true bitwise OR, bit by bit.
(assert (forall ((a Int) (b Int)) (! (=> (and (<= 0 a) (< a 8) (<= 0 b) (< b 8))
  (= (bitor a b)
     (+ (ite (or (= (mod a 2) 1) (= (mod b 2) 1)) 1 0)
        (* 2 (ite (or (= (mod (div a 2) 2) 1) (= (mod (div b 2) 2) 1)) 1 0))
        (* 4 (ite (or (= (div a 4) 1) (= (div b 4) 1)) 1 0)))))
  :pattern ((bitor a b)))))
; pwidth(r): the common length of all rows (rel.Values) held by the *positionalRelation r (abstract: the rows
; live in a frozen.Set); ewidth(e): the same for the rows a *positionalRelationValuesEnumerator yields.
(declare-fun pwidth (Int) Int)
(declare-fun ewidth (Int) Int)
