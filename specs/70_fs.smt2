; ---- C19: file-system vocabulary (w-c19) -----------------------------------------------------------
; Paths are Go strings (sort Str). The predicates are uninterpreted; what is known about them is the
; three facts below plus the ASSUMED contract of path.Join in 70_fs.spec.
(declare-fun within (Str Str) Bool)    ; within(p, d): path p denotes directory d itself or something below d
(declare-fun ddfree (Str) Bool)        ; ddfree(name): name has no ".." segment (so joining it cannot climb)
(declare-fun isNotExist (Val) Bool)    ; meaning of os.IsNotExist(err)
(assert (forall ((d Str)) (! (within d d) :pattern ((within d d)))))
(assert (forall ((p Str) (d Str) (r Str)) (! (=> (and (within p d) (within d r)) (within p r)) :pattern ((within p d) (within d r)))))
(assert (not (isNotExist nilVal)))
; meaning of IsTrue on the two constant sets (the IsTrue methods of EmptySet/TrueSet are proved against
; these: contracts (rel.EmptySet).IsTrue / (rel.TrueSet).IsTrue in rel/verif_contracts_c19.go)
(assert (forall ((v Val)) (! (=> (= (tagof v) tag.rel.EmptySet) (not (istrue v))) :pattern ((istrue v)))))
(assert (forall ((v Val)) (! (=> (= (tagof v) tag.rel.TrueSet) (istrue v)) :pattern ((istrue v)))))
; tuples: attribute presence / attribute value (meaning of Tuple.HasName / Tuple.Get), string form of a value
(declare-fun hasattr (Val Str) Bool)
(declare-fun tget (Val Str) Val)
(declare-fun strof (Val) Str)          ; v.String()
; aftersep(s, sep): the part of s after the first occurrence of sep; s itself when sep does not occur
(declare-fun aftersep (Str Str) Str)
