; ---- C20: vocabulary for pkg/test (w-c19) -----------------------------------------------------------
; gcount / ghas (meaning of (rel.GenericSet).Count / Has on the boxed set): declared in 34_gset_decls.smt2, defined by
; axioms in 35_sets.smt2 (w-c01) in terms of the frozen set
(declare-fun emptyTupleVal () Val)      ; the value of the package variable rel.EmptyTuple
; isdirV(info): meaning of (fs.FileInfo).IsDir on a file-info value (ASSUMED pure: two calls on one value agree)
(declare-fun isdirV (Val) Bool)
