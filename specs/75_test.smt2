; ---- C20: vocabulary for pkg/test (w-c19) -----------------------------------------------------------
(declare-fun gcount (Val) Int)          ; meaning of (rel.GenericSet).Count on the boxed set
(declare-fun ghas (Val Val) Bool)       ; meaning of (rel.GenericSet).Has
(declare-fun emptyTupleVal () Val)      ; the value of the package variable rel.EmptyTuple
