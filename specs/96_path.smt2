; ---- C16: path vocabulary (w-c18) -------------------------------------------------------------------------
; Paths are Go strings (sort Str). Reused from 70_fs.smt2 (w-c19): ddfree(p) "no segment of p is `..`" and
; within(p, d) "p denotes d or something below d" (reflexive, transitive). Here:
(define-fun underdir ((p Str) (r Str)) Bool (within p r))               ; "under(p, root)" of DESIGN §4.C16 (the name `under` is taken by 97_pattern.smt2)
(define-fun rooted ((p Str)) Bool (and (>= (slen p) 1) (= (sat p 0) 47)))   ; p starts with '/'   (DEFINED by bytes)
(define-fun dotdotPrefixed ((p Str)) Bool (and (>= (slen p) 2) (= (sat p 0) 46) (= (sat p 1) 46)))   ; p starts with ".."
(define-fun isws ((c Int)) Bool (or (= c 32) (= c 9) (= c 10)))             ; a byte of the cutset " \t\n"
(define-fun wsfree ((p Str)) Bool (or (= (slen p) 0) (and (not (isws (sat p 0))) (not (isws (sat p (- (slen p) 1)))))))   ; Trim(p, " \t\n") == p
(declare-fun cleaned (Str) Bool)     ; p is in the normal form produced by path.Clean / filepath.Clean (uninterpreted)
; bytes of a concatenation (a fact about Go strings; 00_core.smt2 only gives the length)
(assert (forall ((a Str) (b Str) (i Int)) (! (= (sat (sconcat a b) i) (ite (< i (slen a)) (sat a i) (sat b (- i (slen a))))) :pattern ((sat (sconcat a b) i)))))
; ASSUMED L5: a + "/" + b stays under a when b has no `..` segment   (sep = any one-byte string holding '/')
(assert (forall ((a Str) (sep Str) (b Str)) (! (=> (and (= (slen sep) 1) (= (sat sep 0) 47) (ddfree b)) (within (sconcat (sconcat a sep) b) a)) :pattern ((sconcat (sconcat a sep) b)))))
