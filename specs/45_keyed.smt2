; ---- C05 / C07 (worker w-c05): keyed collections as functions ---------------------------------------
; noVals: the empty set of values (initial content of a set builder's ghost `added`). DEFINITION.
(define-fun noVals () (Array Val Bool) ((as const (Array Val Bool)) false))
; ucall s arg d: calling the set value s (a representation whose content lives in the frozen library, or a
; function value) with arg yields d.  ucallerr s arg: the error its CallAll returns (nilVal: none). Both are
; functions of the VALUES alone: ASSUMED determinism/immutability of calls at the interface level.
(declare-fun ucall (Val Val Val) Bool)
(declare-fun ucallerr (Val Val) Val)
(define-fun noErr () Val nilVal)   ; the nil error, as a term usable in conditional spec expressions
; twith t name v: the tuple t.With(name, v) (interface-level meaning, a function of the values)
(declare-fun twith (Val Str Val) Val)
