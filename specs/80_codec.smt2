; ---- C12/C13 codec vocabulary (owner: w-c12) -------------------------------------------------------
; Escape units of arr.ai string literals (syntax/parse_string.go reader, rel/value_repr.go printer).
; A *unit* of the byte string s at position i is either one byte that is not a backslash, or a
; backslash escape:  \xHH (4 bytes)  \uHHHH (6)  \UHHHHHHHH (10)  \OOO (4, first digit 0..7)  \c (2).

; single-byte string, and UTF-8 encoding of a code point (contract of utf8.AppendRune: every invalid
; code point is written as U+FFFD)
(declare-fun sbyte (Int) Str)
(assert (forall ((b Int)) (! (= (slen (sbyte b)) 1) :pattern ((sbyte b)))))
(assert (forall ((b Int)) (! (=> (and (<= 0 b) (<= b 255)) (= (sat (sbyte b) 0) b)) :pattern ((sbyte b)))))
(declare-fun utf8enc (Int) Str)
(define-fun validRune ((r Int)) Bool (and (<= 0 r) (<= r 1114111) (not (and (<= 55296 r) (<= r 57343)))))
(assert (forall ((r Int)) (! (=> (not (and (<= 0 r) (<= r 1114111) (not (and (<= 55296 r) (<= r 57343))))) (= (utf8enc r) (utf8enc 65533))) :pattern ((utf8enc r)))))
(assert (forall ((r Int)) (! (=> (and (<= 0 r) (< r 128)) (= (utf8enc r) (sbyte r))) :pattern ((utf8enc r)))))
(assert (forall ((r Int)) (! (and (<= 1 (slen (utf8enc r))) (<= (slen (utf8enc r)) 4)) :pattern ((utf8enc r)))))

; digit values (-1: not a digit of that base)
(define-fun hexDig ((c Int)) Int
  (ite (and (<= 48 c) (<= c 57)) (- c 48)
  (ite (and (<= 97 c) (<= c 102)) (- c 87)
  (ite (and (<= 65 c) (<= c 70)) (- c 55) (- 1)))))
(define-fun octDig ((c Int)) Int (ite (and (<= 48 c) (<= c 55)) (- c 48) (- 1)))
(define-fun digOf ((c Int) (base Int)) Int (ite (= base 8) (octDig c) (hexDig c)))
; value / well-formedness of the k digits of s starting at p (k = 2,3,4,8 are the forms used)
(define-fun num2 ((s Str) (p Int) (b Int)) Int (+ (* b (digOf (sat s p) b)) (digOf (sat s (+ p 1)) b)))
(define-fun num3 ((s Str) (p Int) (b Int)) Int (+ (* b (num2 s p b)) (digOf (sat s (+ p 2)) b)))
(define-fun num4 ((s Str) (p Int) (b Int)) Int (+ (* b (num3 s p b)) (digOf (sat s (+ p 3)) b)))
(define-fun num8 ((s Str) (p Int) (b Int)) Int (+ (* b b b b (num4 s p b)) (num4 s (+ p 4) b)))
(define-fun ok2 ((s Str) (p Int) (b Int)) Bool (and (>= (digOf (sat s p) b) 0) (>= (digOf (sat s (+ p 1)) b) 0)))
(define-fun ok3 ((s Str) (p Int) (b Int)) Bool (and (ok2 s p b) (>= (digOf (sat s (+ p 2)) b) 0)))
(define-fun ok4 ((s Str) (p Int) (b Int)) Bool (and (ok3 s p b) (>= (digOf (sat s (+ p 3)) b) 0)))
(define-fun ok8 ((s Str) (p Int) (b Int)) Bool (and (ok4 s p b) (ok4 s (+ p 4) b)))
; numVal t b / numOK t b: what strconv.ParseUint(t, b, _) computes for base 8/16 digit strings of
; length 2,3,4,8 (other lengths: uninterpreted)
(declare-fun numValU (Str Int) Int)
(declare-fun numOKU (Str Int) Bool)
(define-fun numVal ((t Str) (b Int)) Int
  (ite (= (slen t) 2) (num2 t 0 b) (ite (= (slen t) 3) (num3 t 0 b) (ite (= (slen t) 4) (num4 t 0 b)
  (ite (= (slen t) 8) (num8 t 0 b) (numValU t b))))))
(define-fun numOK ((t Str) (b Int)) Bool
  (ite (= (slen t) 2) (ok2 t 0 b) (ite (= (slen t) 3) (ok3 t 0 b) (ite (= (slen t) 4) (ok4 t 0 b)
  (ite (= (slen t) 8) (ok8 t 0 b) (numOKU t b))))))
(define-fun pow2n ((n Int)) Int
  (ite (= n 6) 64 (ite (= n 8) 256 (ite (= n 9) 512 (ite (= n 16) 65536 (ite (= n 32) 4294967296 (ite (= n 64) 18446744073709551616 (- 1))))))))

; the unit at position i
(define-fun isEsc ((s Str) (i Int)) Bool (= (sat s i) 92))
(define-fun unitLen ((s Str) (i Int)) Int
  (ite (not (isEsc s i)) 1
  (ite (= (sat s (+ i 1)) 120) 4
  (ite (= (sat s (+ i 1)) 117) 6
  (ite (= (sat s (+ i 1)) 85) 10
  (ite (>= (octDig (sat s (+ i 1))) 0) 4 2))))))
; numeric escapes (the reader advances one byte too far after these: finding)
(define-fun isNumEsc ((s Str) (i Int)) Bool
  (and (isEsc s i) (or (= (sat s (+ i 1)) 120) (= (sat s (+ i 1)) 117) (= (sat s (+ i 1)) 85) (>= (octDig (sat s (+ i 1))) 0))))
; simple escapes \a \b \e \f \n \r \t \v \\ \' \" : the byte they denote, -1 otherwise
(define-fun simpleEsc ((c Int)) Int
  (ite (= c 97) 7 (ite (= c 98) 8 (ite (= c 101) 27 (ite (= c 102) 12 (ite (= c 110) 10 (ite (= c 114) 13
  (ite (= c 116) 9 (ite (= c 118) 11 (ite (= c 92) 92 (ite (= c 39) 39 (ite (= c 34) 34 (- 1)))))))))))))
; is the whole unit inside s, with well-formed digits? (\i and unknown escapes are handled by the contract)
(define-fun unitFits ((s Str) (i Int)) Bool (<= (+ i (unitLen s i)) (slen s)))
(define-fun unitDigitsOK ((s Str) (i Int)) Bool
  (ite (not (isEsc s i)) true
  (ite (= (sat s (+ i 1)) 120) (ok2 s (+ i 2) 16)
  (ite (= (sat s (+ i 1)) 117) (ok4 s (+ i 2) 16)
  (ite (= (sat s (+ i 1)) 85) (ok8 s (+ i 2) 16)
  (ite (>= (octDig (sat s (+ i 1))) 0) (ok3 s (+ i 1) 8) true))))))
; the text a unit denotes; ind = replacement of \i; other unknown escapes \c denote c itself
(define-fun unitStr ((s Str) (i Int) (ind Str)) Str
  (ite (not (isEsc s i)) (sbyte (sat s i))
  (ite (= (sat s (+ i 1)) 120) (utf8enc (num2 s (+ i 2) 16))
  (ite (= (sat s (+ i 1)) 117) (utf8enc (num4 s (+ i 2) 16))
  (ite (= (sat s (+ i 1)) 85) (utf8enc (num8 s (+ i 2) 16))
  (ite (>= (octDig (sat s (+ i 1))) 0) (utf8enc (num3 s (+ i 1) 8))
  (ite (>= (simpleEsc (sat s (+ i 1))) 0) (sbyte (simpleEsc (sat s (+ i 1))))
  (ite (= (sat s (+ i 1)) 105) ind (sbyte (sat s (+ i 1)))))))))))

; unit boundaries: any predicate that contains 0 and is closed under "advance by one unit"; a proof
; for every such predicate is a proof for the least one (= the real boundaries).
; NOTE on the wrappers: the prelude slicer only emits an axiom when every symbol in it is mentioned by
; the query, so the user-facing names are define-funs that mention unitLen/unitStr (the added
; conjunct / ite guard is constant: unitLen >= 1, slen >= 0) and thereby pull the step axioms in.
(declare-fun uboundU (Str Int) Bool)
(define-fun ubound ((s Str) (i Int)) Bool (and (uboundU s i) (> (unitLen s i) 0)))
(assert (forall ((s Str)) (! (uboundU s 0) :pattern ((uboundU s 0)))))
(assert (forall ((s Str) (i Int)) (! (=> (and (uboundU s i) (<= 0 i) (< i (slen s))) (uboundU s (+ i (unitLen s i)))) :pattern ((uboundU s i)))))
; decFrom base s ind i: base followed by the decoding of the units of s[0..i) (i a boundary)
(declare-fun decFromU (Str Str Str Int) Str)
(define-fun decFrom ((b Str) (s Str) (ind Str) (i Int)) Str (ite (< (slen (unitStr s i ind)) 0) b (decFromU b s ind i)))
(assert (forall ((b Str) (s Str) (ind Str)) (! (= (decFromU b s ind 0) b) :pattern ((decFromU b s ind 0)))))
(assert (forall ((b Str) (s Str) (ind Str) (i Int)) (! (=> (and (uboundU s i) (<= 0 i) (< i (slen s)))
   (= (decFromU b s ind (+ i (unitLen s i))) (sconcat (decFromU b s ind i) (unitStr s i ind)))) :pattern ((decFromU b s ind i)))))

; ---- printer side: ghost output of a Format/repr call ------------------------------------------------
; pfx a b: string a is a prefix of string b (axioms: facts about real prefixes)
(declare-fun pfx (Str Str) Bool)
(assert (forall ((a Str)) (! (pfx a a) :pattern ((pfx a a)))))
(assert (forall ((a Str) (b Str)) (! (pfx a (sconcat a b)) :pattern ((sconcat a b)))))
(assert (forall ((a Str) (b Str) (c Str)) (! (=> (and (pfx a b) (pfx b c)) (pfx a c)) :pattern ((pfx a b) (pfx b c)))))
(declare-fun offRepr (Int) Str)        ; decimal text of an offset followed by a backslash: "5\"
(declare-fun sprintf1 (Str Val) Str)   ; fmt.Sprintf(format, arg)
(declare-fun bytesStr ((Array Int Int) Int Int) Str)   ; string(b) for a byte slice (row, off, len)

; ---- //bits (C13): bits of non-negative integers ------------------------------------------------------
; bit v k: bit k of the non-negative integer v. ASSUMED textbook facts (two's complement, v >= 0):
(declare-fun bit (Int Int) Bool)
(declare-fun tz (Int) Int)             ; bits.TrailingZeros64(uint64(v)) for v > 0
(assert (forall ((k Int)) (! (not (bit 0 k)) :pattern ((bit 0 k)))))
(assert (forall ((v Int)) (! (=> (> v 0) (and (<= 0 (tz v)) (< (tz v) 63) (bit v (tz v)))) :pattern ((tz v)))))
(assert (forall ((v Int) (j Int)) (! (=> (and (> v 0) (<= 0 j) (< j (tz v))) (not (bit v j))) :pattern ((tz v) (bit v j)))))
; v & (v-1) clears the lowest set bit
(assert (forall ((v Int)) (! (=> (> v 0) (and (<= 0 (bitand v (- v 1))) (< (bitand v (- v 1)) v))) :pattern ((bitand v (- v 1))))))
(assert (forall ((v Int) (k Int)) (! (=> (> v 0) (= (bit (bitand v (- v 1)) k) (and (bit v k) (not (= k (tz v)))))) :pattern ((bit (bitand v (- v 1)) k)))))
; int -> float64 keeps the sign
(assert (forall ((v Int)) (! (= (fp.lt (i2f v) ((_ to_fp 11 53) RNE 0.0)) (< v 0)) :pattern ((i2f v)))))

; ---- x-c12: names for the engine's model of the conversion []rune(str) (instr.go convert: str2rune / str2rune.len),
; so that contracts can talk about "the runes of the Go string str"
(declare-fun str2rune (Str) (Array Int Int))
(declare-fun str2rune.len (Str) Int)
(define-fun runeCnt ((s Str)) Int (str2rune.len s))
(define-fun runeOfStr ((s Str) (i Int)) Int (select (str2rune s) i))
; ASSUMED (Go runtime): []rune(str) yields code points only (invalid UTF-8 becomes U+FFFD), never a negative rune
(assert (forall ((s Str) (i Int)) (! (and (<= 0 (select (str2rune s) i)) (<= (select (str2rune s) i) 1114111)) :pattern ((select (str2rune s) i)))))

; ---- x-c12: Bytes.Format / TupleNameRepr vocabulary ---------------------------------------------------------------
; reKind re: which of the package-level regular expressions of package rel the *regexp.Regexp re is
; (1 = renderableBytesRE `^[\a\x08\x1b\f\n\r\t\v -~]+$`, 2 = identRE `\A([$@A-Za-z_][0-9$@A-Za-z_]*)\z`); the
; globalfacts in rel/verif_contracts_c12.go ASSUME the pattern text of the two variables.
(declare-fun reKind (Int) Int)
; bytes the text form <<'...'>> can carry: the class [\a\x08\x1b\f\n\r\t\v -~]
(define-fun rendByte ((c Int)) Bool (or (and (<= 32 c) (<= c 126)) (and (<= 7 c) (<= c 13)) (= c 27)))
; bytes of a bare identifier of the grammar (syntax/arrai.wbnf IDENT: [$@A-Za-z_][0-9$@A-Za-z_]*)
(define-fun identStart ((c Int)) Bool (or (= c 36) (= c 64) (= c 95) (and (<= 65 c) (<= c 90)) (and (<= 97 c) (<= c 122))))
(define-fun identCont ((c Int)) Bool (or (= c 36) (= c 64) (= c 95) (and (<= 65 c) (<= c 90)) (and (<= 97 c) (<= c 122)) (and (<= 48 c) (<= c 57))))
; decByte k: the decimal text of the byte k (ASSUMED textbook facts: 1..3 digits; distinct bytes have distinct texts)
(declare-fun decByte (Int) Str)
(declare-fun byteOfDec (Str) Int)
(assert (forall ((k Int)) (! (=> (and (<= 0 k) (<= k 255)) (and (= (byteOfDec (decByte k)) k) (<= 1 (slen (decByte k))) (<= (slen (decByte k)) 3))) :pattern ((decByte k)))))
; byteList base sep r off n: base followed by the decimal texts of r[off..off+n) separated by sep
(declare-fun byteListU (Str Str (Array Int Int) Int Int) Str)
(define-fun byteList ((base Str) (sep Str) (r (Array Int Int)) (off Int) (n Int)) Str (ite (< (slen (decByte 0)) 0) base (byteListU base sep r off n)))
(assert (forall ((base Str) (sep Str) (r (Array Int Int)) (off Int)) (! (= (byteListU base sep r off 0) base) :pattern ((byteListU base sep r off 0)))))
(assert (forall ((base Str) (sep Str) (r (Array Int Int)) (off Int) (n Int)) (! (=> (>= n 0)
   (= (byteListU base sep r off (+ n 1))
      (sconcat (ite (> n 0) (sconcat (byteListU base sep r off n) sep) (byteListU base sep r off n)) (decByte (select r (+ off n))))))
   :pattern ((byteListU base sep r off n)))))
; the engine's model of []byte(str): byte i of the slice is byte i of the string (Go semantics)
(declare-fun str2byte (Str) (Array Int Int))
(assert (forall ((s Str) (i Int)) (! (= (select (str2byte s) i) (sat s i)) :pattern ((select (str2byte s) i)))))
; //bits.mask: fpow = math.Pow (uninterpreted), fadd = float64 addition (round to nearest even, as Go)
(declare-fun fpow (F F) F)
(define-fun fadd ((a F) (b F)) F (fp.add RNE a b))
(define-fun fpow2 ((y F)) F (fpow ((_ to_fp 11 53) RNE 2.0) y))   ; math.Pow(2, y)
