; ---- C06: meaning of Kind and Less (worker w-c06) ----------------------------------------------
; kind / less are the interface-level meanings of Value.Kind / Value.Less (declared in 10_rel.smt2).
; The axioms below DEFINE them on values of each concrete dynamic type; the Kind/Less methods of the
; types are proved against them (refinement obligations), and the order lemmas (lemma.c06_*) are
; proved from them.
;
; negInner(v): for a *rel.GenericTuple v that has exactly one attribute and that attribute is "@neg":
; the attribute's value; nilVal otherwise (abstraction of `t.Count()==1 && t.Get("@neg")`; the
; content of a GenericTuple lives in the frozen library). Tuples are immutable (C03).
(declare-fun negInner (Val) Val)

; -- Kind, forward direction: the registered kind number of each implementer of rel.Value ---------
(assert (forall ((v Val)) (! (=> (= (tagof v) tag.rel.Number) (= (kind v) 100)) :pattern ((kind v)))))
(assert (forall ((v Val)) (! (=> (= (tagof v) tag.rel.EmptySet) (= (kind v) 198)) :pattern ((kind v)))))
(assert (forall ((v Val)) (! (=> (= (tagof v) tag.rel.TrueSet) (= (kind v) 199)) :pattern ((kind v)))))
(assert (forall ((v Val)) (! (=> (= (tagof v) tag.rel.GenericSet) (= (kind v) 200)) :pattern ((kind v)))))
(assert (forall ((v Val)) (! (=> (= (tagof v) tag.P.rel.NativeFunction) (= (kind v) 203)) :pattern ((kind v)))))
(assert (forall ((v Val)) (! (=> (= (tagof v) tag.rel.String) (= (kind v) 204)) :pattern ((kind v)))))
(assert (forall ((v Val)) (! (=> (= (tagof v) tag.rel.Closure) (= (kind v) 205)) :pattern ((kind v)))))
(assert (forall ((v Val)) (! (=> (= (tagof v) tag.rel.ExprClosure) (= (kind v) 206)) :pattern ((kind v)))))
(assert (forall ((v Val)) (! (=> (= (tagof v) tag.rel.Bytes) (= (kind v) 207)) :pattern ((kind v)))))
(assert (forall ((v Val)) (! (=> (= (tagof v) tag.rel.Array) (= (kind v) 208)) :pattern ((kind v)))))
(assert (forall ((v Val)) (! (=> (= (tagof v) tag.rel.Dict) (= (kind v) 209)) :pattern ((kind v)))))
(assert (forall ((v Val)) (! (=> (= (tagof v) tag.rel.UnionSet) (= (kind v) 210)) :pattern ((kind v)))))
(assert (forall ((v Val)) (! (=> (= (tagof v) tag.rel.Relation) (= (kind v) 211)) :pattern ((kind v)))))
(assert (forall ((v Val)) (! (=> (= (tagof v) tag.rel.StringCharTuple) (= (kind v) 301)) :pattern ((kind v)))))
(assert (forall ((v Val)) (! (=> (= (tagof v) tag.rel.ArrayItemTuple) (= (kind v) 302)) :pattern ((kind v)))))
(assert (forall ((v Val)) (! (=> (= (tagof v) tag.rel.DictEntryTuple) (= (kind v) 303)) :pattern ((kind v)))))
(assert (forall ((v Val)) (! (=> (= (tagof v) tag.rel.BytesByteTuple) (= (kind v) 304)) :pattern ((kind v)))))
; GenericTuple: 300, except the single-attribute tuple (@neg: x) whose kind is -kind(x)
(assert (forall ((v Val)) (! (=> (= (tagof v) tag.P.rel.GenericTuple)
   (= (kind v) (ite (= (negInner v) nilVal) 300 (- (kind (negInner v)))))) :pattern ((kind v)))))
; negInner is nil on everything that is not a generic tuple
(assert (forall ((v Val)) (! (=> (not (= (tagof v) tag.P.rel.GenericTuple)) (= (negInner v) nilVal)) :pattern ((negInner v)))))

; -- Kind, inverse direction (CLOSED WORLD ASSUMPTION): the 18 types above are the only dynamic
; types of non-nil rel.Value values, so a kind number identifies the dynamic type -- except that a
; (@neg: x) wrapper takes ANY number -kind(x), including (for doubly wrapped values) the registered
; ones. isValue(v) is the closed-world predicate; it is assumed for parameters of type rel.Value
; through the spec macro `aValue(v)` (40_order.spec), never for arbitrary Val terms.
(define-fun isNegTuple ((v Val)) Bool (and (= (tagof v) tag.P.rel.GenericTuple) (not (= (negInner v) nilVal))))
(define-fun isValue ((v Val)) Bool
  (or (= (tagof v) tag.rel.Number) (= (tagof v) tag.rel.EmptySet) (= (tagof v) tag.rel.TrueSet)
      (= (tagof v) tag.rel.GenericSet) (= (tagof v) tag.P.rel.NativeFunction) (= (tagof v) tag.rel.String)
      (= (tagof v) tag.rel.Closure) (= (tagof v) tag.rel.ExprClosure) (= (tagof v) tag.rel.Bytes)
      (= (tagof v) tag.rel.Array) (= (tagof v) tag.rel.Dict) (= (tagof v) tag.rel.UnionSet)
      (= (tagof v) tag.rel.Relation) (= (tagof v) tag.rel.StringCharTuple) (= (tagof v) tag.rel.ArrayItemTuple)
      (= (tagof v) tag.rel.DictEntryTuple) (= (tagof v) tag.rel.BytesByteTuple) (= (tagof v) tag.P.rel.GenericTuple)))
; the value inside a (@neg: x) tuple is itself a value
(assert (forall ((v Val)) (! (=> (not (= (negInner v) nilVal)) (isValue (negInner v))) :pattern ((negInner v)))))

; -- Less on the types whose whole content is in the interface value (sugar tuples, numbers) -------
; shared rule: different kind => compare the kind numbers; same kind => the type's own order.
(assert (forall ((a Val) (b Val)) (! (=> (= (tagof a) tag.rel.StringCharTuple)
  (= (less a b) (ite (not (= (kind b) 301)) (< 301 (kind b))
     (and (= (tagof b) tag.rel.StringCharTuple)
          (or (< (pj.rel.StringCharTuple.0.at a) (pj.rel.StringCharTuple.0.at b))
              (and (= (pj.rel.StringCharTuple.0.at a) (pj.rel.StringCharTuple.0.at b))
                   (< (pj.rel.StringCharTuple.1.char a) (pj.rel.StringCharTuple.1.char b))))))))
  :pattern ((less a b)))))
(assert (forall ((a Val) (b Val)) (! (=> (= (tagof a) tag.rel.BytesByteTuple)
  (= (less a b) (ite (not (= (kind b) 304)) (< 304 (kind b))
     (and (= (tagof b) tag.rel.BytesByteTuple)
          (or (< (pj.rel.BytesByteTuple.0.at a) (pj.rel.BytesByteTuple.0.at b))
              (and (= (pj.rel.BytesByteTuple.0.at a) (pj.rel.BytesByteTuple.0.at b))
                   (< (pj.rel.BytesByteTuple.1.byteval a) (pj.rel.BytesByteTuple.1.byteval b))))))))
  :pattern ((less a b)))))
(assert (forall ((a Val) (b Val)) (! (=> (= (tagof a) tag.rel.ArrayItemTuple)
  (= (less a b) (ite (not (= (kind b) 302)) (< 302 (kind b))
     (and (= (tagof b) tag.rel.ArrayItemTuple)
          (or (< (pj.rel.ArrayItemTuple.0.at a) (pj.rel.ArrayItemTuple.0.at b))
              (and (= (pj.rel.ArrayItemTuple.0.at a) (pj.rel.ArrayItemTuple.0.at b))
                   (less (pj.rel.ArrayItemTuple.1.item a) (pj.rel.ArrayItemTuple.1.item b))))))))
  :pattern ((less a b)))))
(assert (forall ((a Val) (b Val)) (! (=> (= (tagof a) tag.rel.DictEntryTuple)
  (= (less a b) (ite (not (= (kind b) 303)) (< 303 (kind b))
     (and (= (tagof b) tag.rel.DictEntryTuple)
          (ite (eq (pj.rel.DictEntryTuple.0.at a) (pj.rel.DictEntryTuple.0.at b))
               (less (pj.rel.DictEntryTuple.1.value a) (pj.rel.DictEntryTuple.1.value b))
               (less (pj.rel.DictEntryTuple.0.at a) (pj.rel.DictEntryTuple.0.at b)))))))
  :pattern ((less a b)))))
(assert (forall ((a Val) (b Val)) (! (=> (= (tagof a) tag.rel.Number)
  (= (less a b) (ite (not (= (kind b) 100)) (< 100 (kind b))
     (and (= (tagof b) tag.rel.Number) (fp.lt (pj.rel.Number.0 a) (pj.rel.Number.0 b))))))
  :pattern ((less a b)))))
; the two constant sets: by kind against everything else, never less than themselves
(assert (forall ((a Val) (b Val)) (! (=> (= (tagof a) tag.rel.EmptySet) (= (less a b) (< 198 (kind b)))) :pattern ((less a b)))))
(assert (forall ((a Val) (b Val)) (! (=> (= (tagof a) tag.rel.TrueSet) (= (less a b) (< 199 (kind b)))) :pattern ((less a b)))))

; ---- strings: string([]rune), string([]byte) and the byte-lexicographic order of Go strings -------
; rune2str row off len / byte2str row off len are the engine's models of the Go conversions
; string(r) for r []rune / []byte (declared here so that they can be axiomatised; ASSUMED facts of
; the Go language: UTF-8 encoding is injective on sequences of valid code points, every invalid rune
; -- in particular the negative "hole" runes of rel.String -- encodes as U+FFFD).
(declare-fun rune2str ((Array Int Int) Int Int) Str)
(declare-fun byte2str ((Array Int Int) Int Int) Str)
(define-fun utfRune ((r Int)) Int (ite (or (and (<= 0 r) (< r 55296)) (and (<= 57344 r) (<= r 1114111))) r 65533))
(declare-fun rune2str.diff ((Array Int Int) Int (Array Int Int) Int Int) Int)   ; skolem: first differing index
(assert (forall ((r1 (Array Int Int)) (o1 Int) (n1 Int) (r2 (Array Int Int)) (o2 Int) (n2 Int))
  (! (=> (and (>= n1 0) (>= n2 0) (= (rune2str r1 o1 n1) (rune2str r2 o2 n2)))
         (and (= n1 n2) (forall ((i Int)) (! (=> (and (<= 0 i) (< i n1)) (= (utfRune (select r1 (+ o1 i))) (utfRune (select r2 (+ o2 i))))) :pattern ((select r1 (+ o1 i))) :pattern ((select r2 (+ o2 i)))))))
     :pattern ((rune2str r1 o1 n1) (rune2str r2 o2 n2)))))
(assert (forall ((r1 (Array Int Int)) (o1 Int) (n1 Int) (r2 (Array Int Int)) (o2 Int) (n2 Int))
  (! (=> (= n1 n2)
         (or (= (rune2str r1 o1 n1) (rune2str r2 o2 n2))
             (and (<= 0 (rune2str.diff r1 o1 r2 o2 n1)) (< (rune2str.diff r1 o1 r2 o2 n1) n1) (not (= (utfRune (select r1 (+ o1 (rune2str.diff r1 o1 r2 o2 n1)))) (utfRune (select r2 (+ o2 (rune2str.diff r1 o1 r2 o2 n1)))))))))
     :pattern ((rune2str r1 o1 n1) (rune2str r2 o2 n2)))))
(declare-fun byte2str.diff ((Array Int Int) Int (Array Int Int) Int Int) Int)   ; skolem: first differing index
(assert (forall ((r1 (Array Int Int)) (o1 Int) (n1 Int) (r2 (Array Int Int)) (o2 Int) (n2 Int))
  (! (=> (and (>= n1 0) (>= n2 0) (= (byte2str r1 o1 n1) (byte2str r2 o2 n2)))
         (and (= n1 n2) (forall ((i Int)) (! (=> (and (<= 0 i) (< i n1)) (= (select r1 (+ o1 i)) (select r2 (+ o2 i)))) :pattern ((select r1 (+ o1 i))) :pattern ((select r2 (+ o2 i)))))))
     :pattern ((byte2str r1 o1 n1) (byte2str r2 o2 n2)))))
(assert (forall ((r1 (Array Int Int)) (o1 Int) (n1 Int) (r2 (Array Int Int)) (o2 Int) (n2 Int))
  (! (=> (= n1 n2)
         (or (= (byte2str r1 o1 n1) (byte2str r2 o2 n2))
             (and (<= 0 (byte2str.diff r1 o1 r2 o2 n1)) (< (byte2str.diff r1 o1 r2 o2 n1) n1) (not (= (select r1 (+ o1 (byte2str.diff r1 o1 r2 o2 n1))) (select r2 (+ o2 (byte2str.diff r1 o1 r2 o2 n1))))))))
     :pattern ((byte2str r1 o1 n1) (byte2str r2 o2 n2)))))
; slt (Go's < on strings) is a strict total order on Str
(assert (forall ((a Str)) (! (not (slt a a)) :pattern ((slt a a)))))
(assert (forall ((a Str) (b Str)) (! (and (or (slt a b) (slt b a) (= a b)) (not (and (slt a b) (slt b a)))) :pattern ((slt a b)))))
(assert (forall ((a Str) (b Str) (c Str)) (! (=> (and (slt a b) (slt b c)) (slt a c)) :pattern ((slt a b) (slt b c)))))
