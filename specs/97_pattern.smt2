; ---- C09 / C08 (worker w-c09): scopes, evaluation and pattern matching as uninterpreted meanings ----
; Scp: the abstract content of a rel.Scope (a finite map name -> Expr). scp(root,count,built) is the
; abstraction of the three leaves of the frozen.Map inside a Scope value (specs write sc(scope)).
(declare-sort Scp 0)
(declare-fun scp (Val Int Bool) Scp)
(declare-fun shas (Scp Str) Bool)
(declare-fun sget (Scp Str) Val)
(declare-const emptyScp Scp)
(assert (forall ((n Str)) (! (not (shas emptyScp n)) :pattern ((shas emptyScp n)))))
; the zero Scope (Scope{}, EmptyScope) is the empty scope
(assert (= (scp nilVal 0 false) emptyScp))
; (the same fact without mentioning emptyScp, so that it accompanies queries that only speak of scp/shas)
(assert (forall ((n Str)) (! (not (shas (scp nilVal 0 false) n)) :pattern ((shas (scp nilVal 0 false) n)))))
; supd(a,b): a.Update(b) (b wins)
(declare-fun supd (Scp Scp) Scp)
(assert (forall ((a Scp) (b Scp) (n Str)) (! (= (shas (supd a b) n) (or (shas a n) (shas b n))) :pattern ((shas (supd a b) n)))))
(assert (forall ((a Scp) (b Scp) (n Str)) (! (= (sget (supd a b) n) (ite (shas b n) (sget b n) (sget a n))) :pattern ((sget (supd a b) n)))))

; meaning of Expr.Eval(ctx, scope): evalok = returns no error, evalv = the value returned then.
; (ASSUMED deterministic in (expr, ctx, scope content); //rand-like natives are outside this model.)
(declare-fun evalok (Val Val Scp) Bool)
(declare-fun evalv (Val Val Scp) Val)
; meaning of Pattern.Bind(ctx, local, value): bindok = matches (no error), bindsc = the bindings,
; bindcx = the context returned.
(declare-fun bindok (Val Val Scp Val) Bool)
(declare-fun bindsc (Val Val Scp Val) Scp)
(declare-fun bindcx (Val Val Scp Val) Val)
; binderr: Bind fails with a GENUINE error (evaluation failure inside the pattern, unsupported pattern) as
; opposed to a plain mismatch. binderr implies not bindok.
(declare-fun binderr (Val Val Scp Val) Bool)
(assert (forall ((p Val) (c Val) (l Scp) (v Val)) (! (=> (binderr p c l v) (not (bindok p c l v))) :pattern ((binderr p c l v)))))

; sameq: identical or Equal (Equal alone is not reflexive: NaN)
(define-fun sameq ((a Val) (b Val)) Bool (or (= a b) (eq a b)))
; covered(r, s, u): scope r carries every binding of scope s (other than the name u = "_") with an Equal
; value ("repeated names agree BY VALUE")
(define-fun coveredU ((r Scp) (s Scp) (u Str)) Bool
  (forall ((n Str)) (! (=> (and (shas s n) (not (= n u))) (and (shas r n) (sameq (sget r n) (sget s n))))
                       :pattern ((shas s n)))))
; ext(r, s, u): r extends s = coveredU(r, s, u). DEFINITION (unfolds wherever an ext term occurs).
(declare-fun ext (Scp Scp Str) Bool)
(assert (! (forall ((r Scp) (s Scp) (u Str)) (! (= (ext r s u) (coveredU r s u)) :pattern ((ext r s u)))) :named def.ext))
; matchedP(p, l, v, r, u): pattern p matched value v under local scope l (in SOME context c: bindok p c l v)
; and scope r extends the bindings produced (ext r (bindsc p c l v) u). Kept opaque in proofs about loops over
; items; the only facts used are how it is established (intro) and that it survives extending r (mono).
; Both follow from the reading  matchedP p l v r u  :=  exists c. bindok p c l v /\ ext r (bindsc p c l v) u
; (mono: by transitivity of ext, lemma ext_trans below, which rests on symmetry/transitivity of eq).
(declare-fun matchedP (Val Scp Val Scp Str) Bool)
(assert (forall ((p Val) (c Val) (l Scp) (v Val) (r Scp) (u Str))
  (! (=> (and (bindok p c l v) (ext r (bindsc p c l v) u)) (matchedP p l v r u))
     :pattern ((bindok p c l v) (ext r (bindsc p c l v) u)))))
(assert (forall ((p Val) (l Scp) (v Val) (r Scp) (r2 Scp) (u Str))
  (! (=> (and (matchedP p l v r u) (ext r2 r u)) (matchedP p l v r2 u))
     :pattern ((matchedP p l v r u) (ext r2 r u)))))
; fbmatchedP(p, fb, l, r, u): the fallback expression fb evaluated (in SOME context c, under l) without error and
; pattern p matched its value with bindings carried by r:  exists c. evalok fb c l /\ matchedP p l (evalv fb c l) r u.
; Opaque like matchedP; intro + mono are the only facts used.
(declare-fun fbmatchedP (Val Val Scp Scp Str) Bool)
(assert (forall ((p Val) (fb Val) (c Val) (l Scp) (r Scp) (u Str))
  (! (=> (and (evalok fb c l) (matchedP p l (evalv fb c l) r u)) (fbmatchedP p fb l r u))
     :pattern ((evalok fb c l) (matchedP p l (evalv fb c l) r u)))))
(assert (forall ((p Val) (fb Val) (l Scp) (r Scp) (r2 Scp) (u Str))
  (! (=> (and (fbmatchedP p fb l r u) (ext r2 r u)) (fbmatchedP p fb l r2 u))
     :pattern ((fbmatchedP p fb l r u) (ext r2 r u)))))
; evunder(x, e): expression x is e or a sub-expression evaluated in the course of evaluating e
(declare-fun subexpr (Val Val) Bool)
(define-fun evunder ((x Val) (e Val)) Bool (or (= x e) (subexpr x e)))
; (x-c09) keys stored in a frozen.Map[Value, any] are self-Equal (the analogue of the fmem axiom of 35_sets.smt2; ASSUMED)
(assert (forall ((r Val) (k Val)) (! (=> (vmhas r k) (eq k k)) :pattern ((vmhas r k)))))
; ---- (x-c09) rel.Names = frozen.Set[string]: abstract content of the tree root: nmhas(root, name), nmcard(root) ----
; ASSUMED theory (finite sets of strings), like fmem/fcard for frozen.Set[Value]
(declare-fun nmhas (Val Str) Bool)
(declare-fun nmcard (Val) Int)
(declare-fun nmany (Val) Str)
(assert (forall ((r Val)) (! (>= (nmcard r) 0) :pattern ((nmcard r)))))
(assert (forall ((r Val) (n Str)) (! (=> (= (nmcard r) 0) (not (nmhas r n))) :pattern ((nmcard r) (nmhas r n)))))
(assert (forall ((r Val)) (! (=> (> (nmcard r) 0) (nmhas r (nmany r))) :pattern ((nmcard r)))))
(assert (forall ((n Str)) (! (not (nmhas nilVal n)) :pattern ((nmhas nilVal n)))))
(assert (= (nmcard nilVal) 0))
