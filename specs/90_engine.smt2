; C17 (server engine) vocabulary — worker w-c17
; actorOnly(ch): channel ch is received from only by the engine's actor goroutine (established by
; `actorchan` declarations, which are checked syntactically by the engine).
(declare-fun actorOnly (Int) Bool)
; counters per channel (ghost arrays indexed by channel reference)
(define-fun bump ((a (Array Int Int)) (k Int)) (Array Int Int) (store a k (+ (select a k) 1)))
