; ---- C18: authority vocabulary (w-c18) ---------------------------------------------------------------
; auth: "the caller holds the full library / ambient authority" (file contents, network, command execution).
; A RIGID ghost boolean: a 0-ary prelude symbol instead of a `ghost` state variable, because state ghosts are
; havocked by calls of functions without `assigns` clause, and authority is neither gained nor lost during a
; call: a function either was handed the authority by its caller (`requires auth`) or it has to work without
; (no such clause: its obligations must hold for auth = false).
(declare-fun auth () Bool)

; x-c17: enumof(e) = the tuple whose attributes the rel.AttrEnumerator e enumerates
(declare-fun enumof (Val) Val)
