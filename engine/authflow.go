package main

// Authority propagation (worker w-c18, property C18).
//
//   //@ propagate auth C18
//        `auth` is a rigid boolean of the prelude (declare-fun auth () Bool): "the caller holds the full
//        library / ambient authority". A function REQUIRES it when its contract (func / extern / interface)
//        has a clause `requires auth` (the expression is exactly the symbol). For repo functions WITHOUT a
//        contract that serves the property (helpers) the requirement is inferred bottom-up over the SSA:
//        a helper requires `auth` iff its body — or the body of a helper reachable from it through static
//        calls, closure creation and function references — contains a static call of, a closure over or a
//        reference to a function that requires `auth`, or an interface call whose `interface` contract
//        requires it. The search stops at functions that have a contract serving the property (they are
//        verified on their own: modular). Calls through function values are not followed (the value was
//        created somewhere: that place is charged, see `publish` below); interface calls rely on the
//        `interface` contract (every implementer must be a unit of its own).
//
//   obligations (all with goal `auth`, props = the declared property):
//     pre@<callee>#n.auth.inferred   at a static call of a helper that (transitively) requires auth;
//     publish@<fn>#k.auth            in a unit serving the property: a closure over / a reference to a function
//                                    that requires auth is created (handing out authority needs authority);
//     static.pre@<target>#k.auth     units declared `abstract body`: the body is NOT executed symbolically;
//                                    every call / closure / reference edge of the body is charged, path-
//                                    insensitively. static.authfree (goal true) when there is no such edge.
//
//   `govc authscan <root key>...`    development aid: prints, for each root, whether it requires auth (with the
//                                    chain) and the dependency functions / interface methods reachable from it
//                                    that are NOT classified as authority-bearing (the complement of the table,
//                                    for review).

import (
	"fmt"
	"go/token"
	"os"
	"sort"
	"strings"

	"golang.org/x/tools/go/ssa"
)

type propagateDecl struct{ Sym, Prop string }

var propagateDecls []propagateDecl

func parsePropagate(t string) error {
	fs := strings.Fields(t)
	if len(fs) != 3 {
		return fmt.Errorf("bad propagate declaration (want: propagate <symbol> <property>): %s", t)
	}
	for _, d := range propagateDecls {
		if d.Sym == fs[1] {
			return nil
		}
	}
	propagateDecls = append(propagateDecls, propagateDecl{fs[1], fs[2]})
	return nil
}

func requiresSym(con *Contract, sym string) bool {
	if con == nil {
		return false
	}
	for _, r := range con.Requires {
		if id, ok := r.Expr.(EIdent); ok && id.Name == sym {
			return true
		}
	}
	return false
}

// authEdge: one place in a function body that refers to another function.
type authEdge struct {
	key  string        // contract key of the target
	fn   *ssa.Function // nil for interface calls
	kind string        // call | ref | invoke
	pos  token.Pos
}

func (e *Engine) bodyEdges(fn *ssa.Function) []authEdge {
	var out []authEdge
	for _, b := range fn.Blocks {
		for _, in := range b.Instrs {
			if _, dbg := in.(*ssa.DebugRef); dbg {
				continue // ssa.GlobalDebug: source-level references, not uses
			}
			var callee ssa.Value
			if ci, ok := in.(ssa.CallInstruction); ok {
				c := ci.Common()
				if c.IsInvoke() {
					out = append(out, authEdge{key: methodKey(c.Method), kind: "invoke", pos: in.Pos()})
				} else {
					callee = c.Value
					if mc, ok := callee.(*ssa.MakeClosure); ok {
						callee = mc.Fn
					}
					if f, ok := callee.(*ssa.Function); ok {
						out = append(out, authEdge{key: funcKey(f), fn: f, kind: "call", pos: in.Pos()})
					}
				}
			}
			var ops []*ssa.Value
			for _, op := range in.Operands(ops) {
				if op == nil || *op == nil {
					continue
				}
				if g, ok := (*op).(*ssa.Global); ok && g.Pkg != nil && inRepo(g.Pkg.Pkg) && fn.Synthetic != "package initializer" {
					// a package-level variable may hold function values stored by the package initialiser:
					// reading one is (conservatively) an edge to everything the initialiser creates
					if ini := g.Pkg.Func("init"); ini != nil {
						out = append(out, authEdge{key: pkgKey(g.Pkg.Pkg) + ".init", fn: ini, kind: "global", pos: in.Pos()})
					}
				}
				if f, ok := (*op).(*ssa.Function); ok {
					if ci, isCall := in.(ssa.CallInstruction); isCall && ci.Common().Value == *op {
						continue // the callee operand itself: counted as call above
					}
					pos := in.Pos()
					if pos == token.NoPos {
						pos = f.Pos()
					}
					out = append(out, authEdge{key: funcKey(f), fn: f, kind: "ref", pos: pos})
				}
			}
		}
	}
	return out
}

// modularFor: the function is a verification unit for the property (its contract speaks for it).
func (e *Engine) modularFor(key string, prop string) (*Contract, bool) {
	con := e.CS.Contracts[key]
	if con == nil {
		return nil, false
	}
	if con.Kind != "func" {
		return con, true // extern / interface: assumed contract
	}
	return con, contractServes(con, prop)
}

type authResult struct {
	needs bool
	chain string          // how the authority-bearing function is reached
	ext   map[string]bool // unclassified dependency functions / interface methods reached (for review)
}

// edgeNeeds: does following this edge require the authority?
func (e *Engine) edgeNeeds(d propagateDecl, ed authEdge, memo map[*ssa.Function]*authResult) (bool, string) {
	con, modular := e.modularFor(ed.key, d.Prop)
	if requiresSym(con, d.Sym) {
		return true, ed.key
	}
	if ed.fn == nil || modular || len(ed.fn.Blocks) == 0 || !fnInRepo(ed.fn) {
		return false, ""
	}
	r := e.authReach(d, ed.fn, memo)
	if r.needs {
		return true, ed.key + " -> " + r.chain
	}
	return false, ""
}

// authReach: breadth-first search from fn (a helper: its body is looked through).
func (e *Engine) authReach(d propagateDecl, root *ssa.Function, memo map[*ssa.Function]*authResult) *authResult {
	if r, ok := memo[root]; ok {
		return r
	}
	res := &authResult{ext: map[string]bool{}}
	type item struct {
		fn    *ssa.Function
		chain string
	}
	seen := map[*ssa.Function]bool{root: true}
	work := []item{{root, ""}}
	for len(work) > 0 {
		it := work[0]
		work = work[1:]
		for _, ed := range e.bodyEdges(it.fn) {
			con, modular := e.modularFor(ed.key, d.Prop)
			if requiresSym(con, d.Sym) {
				if !res.needs {
					res.needs = true
					res.chain = it.chain + ed.key
				}
				continue
			}
			if ed.fn == nil {
				if con == nil {
					res.ext["interface call "+ed.key+" (no interface contract)"] = true
				}
				continue
			}
			if len(ed.fn.Blocks) == 0 || !fnInRepo(ed.fn) {
				if con == nil {
					res.ext[ed.key] = true
				}
				continue
			}
			if modular || seen[ed.fn] {
				continue
			}
			seen[ed.fn] = true
			work = append(work, item{ed.fn, it.chain + ed.key + " -> "})
		}
	}
	memo[root] = res
	return res
}

func fnInRepo(f *ssa.Function) bool {
	for f.Parent() != nil {
		f = f.Parent()
	}
	if f.Pkg != nil {
		return inRepo(f.Pkg.Pkg)
	}
	if f.Object() != nil && f.Object().Pkg() != nil {
		return inRepo(f.Object().Pkg())
	}
	// synthetic wrappers ($bound, $thunk) without package: look at the receiver / wrapped object
	if f.Signature != nil && f.Signature.Recv() != nil {
		return true
	}
	return f.Synthetic != ""
}

var authMemo = map[string]map[*ssa.Function]*authResult{}

func (e *Engine) authMemoFor(d propagateDecl) map[*ssa.Function]*authResult {
	m := authMemo[d.Sym]
	if m == nil {
		m = map[*ssa.Function]*authResult{}
		authMemo[d.Sym] = m
	}
	return m
}

// authCallHook: called for every static call (before the callee's contract, if any, is applied).
func (vc *VC) authCallHook(key string, callee *ssa.Function, reach string, pos token.Pos) {
	if callee == nil || len(propagateDecls) == 0 || vc.dry > 0 {
		return
	}
	for _, d := range propagateDecls {
		if vc.con == nil || !contractServes(vc.con, d.Prop) {
			continue // the unit is not one of this property's
		}
		con, modular := vc.eng.modularFor(key, d.Prop)
		if modular || requiresSym(con, d.Sym) || !fnInRepo(callee) || len(callee.Blocks) == 0 {
			continue // requires clause (if any) is handled by applyContract
		}
		r := vc.eng.authReach(d, callee, vc.eng.authMemoFor(d))
		if r.needs {
			n := vc.callN[key]
			vc.oblige("pre", fmt.Sprintf("pre@%s#%d.%s.inferred", key, n, d.Sym), []string{d.Prop}, reach, d.Sym,
				fmt.Sprintf("%s (inferred: %s has no contract for %s and reaches %s)", d.Sym, key, d.Prop, r.chain), pos)
		}
	}
}

// authPublish: closures over / references to functions that require the authority, created in this unit.
func (vc *VC) authPublish() {
	if vc.con == nil || vc.failed != "" {
		return
	}
	for _, d := range propagateDecls {
		if !contractServes(vc.con, d.Prop) {
			continue
		}
		k := 0
		for _, ed := range vc.eng.bodyEdges(vc.fn) {
			if ed.kind != "ref" {
				continue
			}
			if needs, chain := vc.eng.edgeNeeds(d, ed, vc.eng.authMemoFor(d)); needs {
				vc.oblige("pre", fmt.Sprintf("publish@%s#%d.%s", ed.key, k, d.Sym), []string{d.Prop}, "true", d.Sym,
					fmt.Sprintf("%s (a function value that needs it is created here: %s)", d.Sym, chain), ed.pos)
				k++
			}
		}
	}
}

func hasAbstract(con *Contract, what string) bool {
	for _, a := range con.Abstract {
		if a == what {
			return true
		}
	}
	return false
}

// staticOnlyContract: `abstract body` is honoured only while the (possibly merged) contract says nothing else: every
// requires clause is a propagated symbol, there are no ensures / loop clauses, and the tags are propagated
// properties. When another contract file gives the same function real clauses, the merged unit is executed
// symbolically as usual (the `abstract body` of the stub is void) instead of switching that verification off.
func staticOnlyContract(con *Contract) bool {
	if len(con.Ensures) > 0 || len(con.Invs) > 0 || len(con.Decs) > 0 || len(con.IterEns) > 0 || len(con.Steps) > 0 || con.Assigns != "" || len(con.Modifies) > 0 {
		return false
	}
	isSym := func(n string) bool {
		for _, d := range propagateDecls {
			if d.Sym == n {
				return true
			}
		}
		return false
	}
	for _, r := range con.Requires {
		if id, ok := r.Expr.(EIdent); !ok || !isSym(id.Name) {
			return false
		}
	}
	for _, t := range con.Tags {
		ok := false
		for _, d := range propagateDecls {
			if d.Prop == t {
				ok = true
			}
		}
		if !ok {
			return false
		}
	}
	return true
}

// genStaticUnit: `abstract body` — the unit is checked by the call-graph analysis only.
func (e *Engine) genStaticUnit(key string, con *Contract) (*VC, error) {
	fn := e.Funcs[key]
	vc := newVC(e, fn, con, key)
	vc.regions = map[string]string{}
	if len(propagateDecls) == 0 {
		return nil, fmt.Errorf("%s:%d: `abstract body` needs a `propagate` declaration", con.File, con.Line)
	}
	for _, r := range con.Requires {
		id, ok := r.Expr.(EIdent)
		if !ok {
			return nil, fmt.Errorf("%s:%d: `abstract body` units may only have requires clauses that are a propagated symbol", r.File, r.Line)
		}
		vc.assume("true", id.Name)
	}
	e.note("unit " + key + ": `abstract body` — checked by the static call-graph authority analysis only (path-insensitive); no other clause of its contract is verified")
	for _, d := range propagateDecls {
		k := 0
		for _, ed := range e.bodyEdges(fn) {
			if needs, chain := e.edgeNeeds(d, ed, e.authMemoFor(d)); needs {
				vc.oblige("pre", fmt.Sprintf("static.pre@%s#%d.%s", ed.key, k, d.Sym), []string{d.Prop}, "true", d.Sym,
					fmt.Sprintf("%s (%s edge; reaches %s)", d.Sym, ed.kind, chain), ed.pos)
				k++
			}
		}
		if k == 0 {
			vc.oblige("static", "static.authfree."+d.Sym, []string{d.Prop}, "true", "true",
				"no call, closure or function reference in the body reaches a function that requires "+d.Sym, fn.Pos())
		}
	}
	for _, o := range vc.obls {
		o.vc = nil // no symbolic state: nothing to render for a replay (Replay then reports "no executable subject")
	}
	return vc, nil
}

// ---- govc authscan -----------------------------------------------------------------------------------

func init() {
	if len(os.Args) < 3 || os.Args[1] != "authscan" {
		return
	}
	e, err := Load(repoDir, verifDir, contractPackages())
	if err != nil {
		fmt.Fprintln(os.Stderr, err)
		os.Exit(2)
	}
	if len(propagateDecls) == 0 {
		fmt.Fprintln(os.Stderr, "no propagate declaration")
		os.Exit(2)
	}
	d := propagateDecls[0]
	for _, key := range os.Args[2:] {
		var fns []string
		if strings.HasSuffix(key, "*") {
			for k := range e.Funcs {
				if strings.HasPrefix(k, strings.TrimSuffix(key, "*")) {
					fns = append(fns, k)
				}
			}
			sort.Strings(fns)
		} else {
			fns = []string{key}
		}
		for _, k := range fns {
			fn := e.rootFn(k)
			if fn == nil || len(fn.Blocks) == 0 {
				fmt.Printf("%s: no such function body\n", k)
				continue
			}
			r := e.authReach(d, fn, map[*ssa.Function]*authResult{})
			if r.needs {
				fmt.Printf("%s: REQUIRES %s via %s\n", k, d.Sym, r.chain)
			} else {
				fmt.Printf("%s: free of %s\n", k, d.Sym)
			}
			if os.Getenv("AUTHSCAN_EXT") != "" {
				var xs []string
				for x := range r.ext {
					xs = append(xs, x)
				}
				sort.Strings(xs)
				for _, x := range xs {
					fmt.Printf("    unclassified: %s\n", x)
				}
			}
		}
	}
	os.Exit(0)
}

// ---- govc authstubs impl <MethodName> | refs <root key>... -------------------------------------------------
// Prints `abstract body` contract stubs: (impl) for every repo method of that name with a receiver, (refs) for
// every repo function whose value is created (closure / function reference) in a root or in a helper
// reachable from it — the native-function bodies a library constructor registers.

func stubHeader(e *Engine, key string, fn *ssa.Function) (pkg, head string) {
	q := fn
	for q.Parent() != nil {
		q = q.Parent()
	}
	pk := ""
	if q.Pkg != nil {
		pk = pkgKey(q.Pkg.Pkg)
	}
	h := key
	h = strings.Replace(h, "("+pk+".", "(", 1)
	h = strings.Replace(h, "(*"+pk+".", "(*", 1)
	h = strings.TrimPrefix(h, pk+".")
	var names []string
	if c := e.CS.Contracts[key]; c != nil {
		names = c.Params
	} else {
		seen := map[string]bool{}
		for i, p := range fn.Params {
			n := p.Name()
			if n == "" || n == "_" || seen[n] {
				n = fmt.Sprintf("p%d", i)
			}
			seen[n] = true
			names = append(names, n)
		}
	}
	_ = names
	return pk, fmt.Sprintf("//@ func %s(*)", h)
}

func init() {
	if len(os.Args) < 4 || os.Args[1] != "authstubs" {
		return
	}
	e, err := Load(repoDir, verifDir, contractPackages())
	if err != nil {
		fmt.Fprintln(os.Stderr, err)
		os.Exit(2)
	}
	prop := "C18"
	if len(propagateDecls) > 0 {
		prop = propagateDecls[0].Prop
	}
	found := map[string]*ssa.Function{}
	switch os.Args[2] {
	case "impl":
		for k, fn := range e.Funcs {
			if fn.Name() == os.Args[3] && fn.Signature.Recv() != nil && len(fn.Blocks) > 0 && fn.Parent() == nil {
				found[k] = fn
			}
		}
	case "refs":
		for _, root := range os.Args[3:] {
			fn := e.rootFn(root)
			if fn == nil {
				fmt.Fprintln(os.Stderr, "no function", root)
				os.Exit(2)
			}
			seen := map[*ssa.Function]bool{fn: true}
			work := []*ssa.Function{fn}
			for len(work) > 0 {
				f := work[0]
				work = work[1:]
				for _, ed := range e.bodyEdges(f) {
					if ed.fn == nil || len(ed.fn.Blocks) == 0 || !fnInRepo(ed.fn) || seen[ed.fn] {
						continue
					}
					seen[ed.fn] = true
					if ed.kind == "ref" && ed.fn.Synthetic == "" {
						found[ed.key] = ed.fn
						// a registered body is a unit of its own: do not look for registrations inside it,
						// except closures it creates itself (curried native functions)
					}
					work = append(work, ed.fn)
				}
			}
		}
	}
	var keys []string
	for k := range found {
		keys = append(keys, k)
	}
	sort.Slice(keys, func(i, j int) bool {
		pi, pj := e.Prog.Fset.Position(found[keys[i]].Pos()), e.Prog.Fset.Position(found[keys[j]].Pos())
		if pi.Filename != pj.Filename {
			return pi.Filename < pj.Filename
		}
		return pi.Line < pj.Line
	})
	lastPkg, lastFile := "", ""
	for _, k := range keys {
		fn := found[k]
		pk, head := stubHeader(e, k, fn)
		if pk != lastPkg {
			fmt.Printf("\n// ======== package %s\n", pk)
			lastPkg = pk
		}
		p := e.Prog.Fset.Position(fn.Pos())
		if pre := os.Getenv("AUTHSTUBS_FILES"); pre != "" && !strings.HasPrefix(strings.TrimPrefix(p.Filename, repoDir+"/"), pre) {
			continue
		}
		if p.Filename != lastFile {
			fmt.Printf("// ---- %s\n", strings.TrimPrefix(p.Filename, repoDir+"/"))
			lastFile = p.Filename
		}
		if c := e.CS.Contracts[k]; c != nil && contractServes(c, prop) {
			fmt.Printf("// (already a %s unit: %s)\n", prop, k)
			continue
		}
		if c := e.CS.Contracts[k]; c != nil {
			// somebody else's contract: no stub (an `abstract body` would switch off its symbolic verification)
			fmt.Printf("// (has a contract of another property, not made a unit: %s)\n", k)
			continue
		}
		fmt.Printf("%s\n//@   tags %s\n//@   abstract body\n", head, prop)
	}
	os.Exit(0)
}

// rootFn: function by contract key; "<pkg>.init" names the (synthetic) package initialiser.
func (e *Engine) rootFn(key string) *ssa.Function {
	if fn := e.Funcs[key]; fn != nil {
		return fn
	}
	if strings.HasSuffix(key, ".init") {
		if p := e.Pkgs[strings.TrimSuffix(key, ".init")]; p != nil {
			return p.Func("init")
		}
	}
	return nil
}
