package main

// Contract keys of instantiated generic functions (w-c01).
//
// go/ssa names an instance of a generic function or method `Has[github.com/arr-ai/arrai/rel.Value]`;
// funcKey therefore yields `(frozen.Set).Has[github.com/arr-ai/arrai/rel.Value]`. Contracts are written
// for the generic function: `extern (frozen.Set).Has(s; v)`, `extern frozen.Powerset(s)`. Lookup order:
//   1. the full instance key (cannot be written in a contract header, kept for completeness),
//   2. the generic key + `$` + mangled type arguments: `(frozen.Map).Get$string_any`, `(frozen.Set).Has$Value`
//      (package paths dropped, `,` and brackets become `_`) — for contracts that hold for one instantiation only
//      (e.g. because the specification functions have the sort of the type argument),
//   3. the generic key `(frozen.Set).Has`.
// Interface methods of an instantiated generic interface (`frozen.Iterator[string]`): methodKey drops the type
// arguments; instIfaceKey tries `(frozen.Iterator$string).Next` first.

import (
	"go/types"
	"strings"
)

func mangleTypeArgs(s string) string {
	var out []string
	cur := ""
	flush := func() {
		cur = strings.TrimSpace(cur)
		if cur != "" {
			if i := strings.LastIndex(cur, "/"); i >= 0 {
				cur = cur[i+1:]
			}
			if i := strings.LastIndex(cur, "."); i >= 0 {
				cur = cur[i+1:]
			}
			out = append(out, cur)
		}
		cur = ""
	}
	for _, r := range s {
		switch r {
		case ',', '[', ']', ' ':
			flush()
		default:
			cur += string(r)
		}
	}
	flush()
	return strings.Join(out, "_")
}

// genericContract looks a contract up by the instance key, then by the mangled instance key, then by the generic key.
func (e *Engine) genericContract(key string) (*Contract, string) {
	if c := e.CS.Contracts[key]; c != nil {
		return c, key
	}
	i := strings.Index(key, "[")
	if i < 0 || !strings.HasSuffix(key, "]") {
		return nil, key
	}
	base, args := key[:i], key[i+1:len(key)-1]
	if k2 := base + "$" + mangleTypeArgs(args); e.CS.Contracts[k2] != nil {
		return e.CS.Contracts[k2], k2
	}
	if c := e.CS.Contracts[base]; c != nil {
		return c, base
	}
	return nil, key
}

// instIfaceKey: key of an interface method called on an instantiated generic interface type.
func (e *Engine) instIfaceKey(m *types.Func, key string) string {
	sig, ok := m.Type().(*types.Signature)
	if !ok || sig.Recv() == nil {
		return key
	}
	n, ok := sig.Recv().Type().(*types.Named)
	if !ok || n.TypeArgs() == nil || n.TypeArgs().Len() == 0 {
		return key
	}
	var as []string
	for i := 0; i < n.TypeArgs().Len(); i++ {
		as = append(as, types.TypeString(n.TypeArgs().At(i), nil))
	}
	k2 := "(" + pkgKey(n.Obj().Pkg()) + "." + n.Obj().Name() + "$" + mangleTypeArgs(strings.Join(as, ",")) + ")." + m.Name()
	if e.CS.Contracts[k2] != nil {
		return k2
	}
	return key
}
