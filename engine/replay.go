package main

// Replay of counter-model candidates on the real code: the model's parameter values are rendered
// as Go literals inside an in-package test that is injected with `go test -overlay` (nothing is
// written into /repo), the real function is called under recover(), and what happened is compared
// with the failed obligation (panic for safety obligations, changed pre-existing memory for frame
// obligations, the observed result for postconditions).

import (
	"context"
	"encoding/json"
	"fmt"
	"go/types"
	"math"
	"os"
	"os/exec"
	"path/filepath"
	"regexp"
	"strconv"
	"strings"
	"time"
)

type renderer struct {
	s      *smtSession
	vc     *VC
	st     *State
	pre    []string // Go statements executed before the call
	n      int
	approx []string
	arrays map[string]string // elemType|ref -> backing array variable
	ptrs   map[string]string
	fail   string
	model  map[string]string
}

func (r *renderer) val(term string) string {
	m, err := r.s.getValue(term)
	if err != nil {
		r.fail = err.Error()
		return "0"
	}
	v := m[term]
	if len(r.model) < 200 && len(term) < 80 {
		r.model[term] = v
	}
	return v
}

func (r *renderer) intv(term string) int64 {
	v, ok := parseIntVal(r.val(term))
	if !ok {
		r.fail = "non-integer model value for " + term
	}
	return v
}

func (r *renderer) newVar(prefix string) string {
	r.n++
	return fmt.Sprintf("%s%d", prefix, r.n)
}

func (r *renderer) qual(t types.Type) string {
	pkg := r.vc.fn.Pkg.Pkg
	return types.TypeString(t, func(p *types.Package) string {
		if p == pkg {
			return ""
		}
		return p.Name()
	})
}

func parseFP(s string) (float64, bool) {
	s = strings.TrimSpace(s)
	switch {
	case strings.Contains(s, "+zero"):
		return 0, true
	case strings.Contains(s, "-zero"):
		return math.Copysign(0, -1), true
	case strings.Contains(s, "NaN"):
		return math.NaN(), true
	case strings.Contains(s, "+oo"):
		return math.Inf(1), true
	case strings.Contains(s, "-oo"):
		return math.Inf(-1), true
	}
	if strings.HasPrefix(s, "(fp ") {
		f := strings.Fields(strings.Trim(s, "()"))
		if len(f) == 4 {
			bits := uint64(0)
			for _, part := range f[1:] {
				if strings.HasPrefix(part, "#b") {
					for _, c := range part[2:] {
						bits = bits<<1 | uint64(c-'0')
					}
				} else if strings.HasPrefix(part, "#x") {
					v, _ := strconv.ParseUint(part[2:], 16, 64)
					bits = bits<<(4*uint(len(part)-2)) | v
				}
			}
			return math.Float64frombits(bits), true
		}
	}
	return 0, false
}

// render returns a Go expression of type t for the symbolic value sv under the model.
func (r *renderer) render(t types.Type, sv SV, depth int) string {
	if r.fail != "" {
		return "nil"
	}
	switch u := t.Underlying().(type) {
	case *types.Basic:
		sc := sv.(Sc)
		switch {
		case u.Info()&types.IsBoolean != 0:
			return r.qual(t) + "(" + r.val(sc.T) + ")"
		case u.Info()&types.IsInteger != 0:
			return fmt.Sprintf("%s(%d)", r.qual(t), r.intv(sc.T))
		case u.Info()&types.IsFloat != 0:
			f, ok := parseFP(r.val(sc.T))
			if !ok {
				r.approx = append(r.approx, "float value not parsed")
			}
			return fmt.Sprintf("%s(math.Float64frombits(0x%x))", r.qual(t), math.Float64bits(f))
		case u.Info()&types.IsString != 0:
			n := r.intv(app("slen", sc.T))
			if n > 64 {
				r.fail = "string too long in model"
				return `""`
			}
			b := make([]byte, n)
			for i := range b {
				b[i] = byte(r.intv(app("sat", sc.T, sInt(int64(i)))))
			}
			return r.qual(t) + "(" + strconv.Quote(string(b)) + ")"
		}
	case *types.Slice:
		sl := sv.(Sl)
		ref, off, ln, cp := r.intv(sl.Ref), r.intv(sl.Off), r.intv(sl.Len), r.intv(sl.Cap)
		if ref == 0 && cp == 0 {
			return "(" + r.qual(t) + ")(nil)"
		}
		if off+cp > 48 || ln > 16 || off < 0 || ln < 0 || cp < ln {
			r.fail = fmt.Sprintf("slice too large in model (off=%d len=%d cap=%d)", off, ln, cp)
			return "nil"
		}
		key := fmt.Sprintf("%s|%d", typeName(u.Elem()), ref)
		arr, ok := r.arrays[key]
		if !ok {
			arr = r.newVar("arr")
			r.arrays[key] = arr
			r.pre = append(r.pre, fmt.Sprintf("%s := make(%s, 48)", arr, r.qual(t)))
			// fill every cell any view could see
			for i := int64(0); i < off+cp; i++ {
				cell := r.vc.readElem(r.st, Sl{Ref: sl.Ref, Off: "0", Len: "0", Cap: "0", Elem: u.Elem()}, sInt(i))
				r.pre = append(r.pre, fmt.Sprintf("%s[%d] = %s", arr, i, r.render(u.Elem(), cell, depth+1)))
			}
			r.pre = append(r.pre, fmt.Sprintf("govcTrack(%q, %s)", arr, arr))
		}
		return fmt.Sprintf("%s[%d:%d:%d]", arr, off, off+ln, off+cp)
	case *types.Struct:
		st := sv.(St)
		named, isNamed := t.(*types.Named)
		if isNamed && named.Obj().Pkg() != r.vc.fn.Pkg.Pkg {
			r.approx = append(r.approx, "zero value used for "+t.String())
			return r.qual(t) + "{}"
		}
		var fs []string
		for i := 0; i < u.NumFields(); i++ {
			fs = append(fs, u.Field(i).Name()+": "+r.render(u.Field(i).Type(), st.F[i], depth+1))
		}
		return r.qual(t) + "{" + strings.Join(fs, ", ") + "}"
	case *types.Interface:
		v := sv.(Sc).T
		tag := r.intv(app("tagof", v))
		if tag == 0 {
			return "nil"
		}
		if int(tag) <= len(r.vc.eng.TagTypes) && depth < 4 {
			ct := r.vc.eng.TagTypes[tag-1]
			if types.AssignableTo(ct, t) && r.renderable(ct) {
				_, projs, _ := r.vc.mkFn(ct)
				ls := make([]string, len(projs))
				for i, p := range projs {
					ls[i] = app(p, v)
				}
				return r.qual(t) + "(" + r.render(ct, mkSV(ct, ls), depth+1) + ")"
			}
		}
		r.approx = append(r.approx, fmt.Sprintf("interface value of tag %d approximated by a number", tag))
		r.n++
		if named, ok := t.(*types.Named); ok && named.Obj().Name() == "Value" {
			return fmt.Sprintf("Value(NewNumber(%d))", 1000+r.n)
		}
		return "nil"
	case *types.Pointer:
		p, ok := sv.(Pt)
		if !ok || p.Kind != "heap" {
			r.fail = "pointer shape not renderable"
			return "nil"
		}
		ref := r.intv(p.Ref)
		if ref == 0 {
			return "(" + r.qual(t) + ")(nil)"
		}
		key := fmt.Sprintf("%s|%d", typeName(u.Elem()), ref)
		if v, ok := r.ptrs[key]; ok {
			return v
		}
		if _, isStruct := u.Elem().Underlying().(*types.Struct); !isStruct || depth > 3 {
			r.fail = "pointer target not renderable"
			return "nil"
		}
		name := r.newVar("ptr")
		r.ptrs[key] = name
		cell := r.vc.readHeapPtr(r.st, Pt{Kind: "heap", Ref: p.Ref, Elem: u.Elem(), Root: u.Elem()})
		r.pre = append(r.pre, fmt.Sprintf("%s := &%s", name, r.render(u.Elem(), cell, depth+1)))
		return name
	case *types.Signature:
		r.approx = append(r.approx, "function parameter replaced by nil")
		return "nil"
	case *types.Map:
		r.approx = append(r.approx, "map parameter replaced by an empty map")
		return "make(" + r.qual(t) + ")"
	case *types.Chan:
		r.approx = append(r.approx, "chan parameter replaced by a buffered channel")
		return "make(" + r.qual(t) + ", 16)"
	}
	r.fail = "type not renderable: " + t.String()
	return "nil"
}

func (r *renderer) renderable(t types.Type) bool {
	n, ok := t.(*types.Named)
	if !ok {
		return false
	}
	if n.Obj().Pkg() != r.vc.fn.Pkg.Pkg {
		return false
	}
	switch n.Obj().Name() {
	case "Number", "StringCharTuple", "BytesByteTuple", "ArrayItemTuple", "DictEntryTuple", "String", "Bytes", "Array", "EmptySet", "TrueSet":
		return true
	}
	return false
}

// candidate bounds tried in order: small first, then none
func (vc *VC) searchBounds(level int) []string {
	var out []string
	// strings (w-c12): quantified string axioms are dropped in the search, so bound the length and
	// restate the byte range for the positions that will be rendered
	for i, p := range vc.fn.Params {
		if b, ok := p.Type().Underlying().(*types.Basic); ok && b.Info()&types.IsString != 0 {
			if sc, ok := vc.params[vc.con.Params[i]].(Sc); ok {
				n := []int{8, 16, 48}[level]
				out = append(out, fmt.Sprintf("(assert (and (<= 0 (slen %s)) (<= (slen %s) %d)))", sc.T, sc.T, n))
				for k := 0; k < n; k++ {
					out = append(out, fmt.Sprintf("(assert (and (<= 0 (sat %s %d)) (<= (sat %s %d) 255)))", sc.T, k, sc.T, k))
				}
			}
		}
	}
	if level > 1 {
		return out
	}
	var walk func(t types.Type, sv SV)
	walk = func(t types.Type, sv SV) {
		switch x := sv.(type) {
		case Sl:
			out = append(out, fmt.Sprintf("(assert (and (<= %s 6) (<= %s 2) (<= %s (+ %s 2)) (<= %s 40)))", x.Len, x.Off, x.Cap, x.Len, x.Ref))
		case St:
			if stt, ok := t.Underlying().(*types.Struct); ok {
				for i := range x.F {
					walk(stt.Field(i).Type(), x.F[i])
				}
			}
		case Sc:
			if x.S == "Int" && level == 0 {
				out = append(out, fmt.Sprintf("(assert (and (<= (- 1000) %s) (<= %s 1000)))", x.T, x.T))
			}
		}
	}
	for i, p := range vc.fn.Params {
		walk(p.Type(), vc.params[vc.con.Params[i]])
	}
	return out
}

// Replay tries to confirm a failed obligation on the real code. It fills o.Replayed / o.ReplayInfo.
func (e *Engine) Replay(o *Obligation, outDir string) {
	info := map[string]interface{}{}
	o.ReplayInfo = info
	vc := o.vc
	if vc == nil || vc.fn == nil {
		info["replay_note"] = "obligation has no executable subject (lemma)"
		return
	}
	for level := 0; level <= 2; level++ {
		q := e.qfQuery(o, vc.searchBounds(level))
		s, err := startZ3("z3-new")
		if err != nil {
			info["replay_note"] = "cannot start solver: " + err.Error()
			return
		}
		s.send(q)
		s.send("(check-sat)")
		res, _ := s.readSexpr()
		if res != "sat" {
			s.close()
			info[fmt.Sprintf("candidate_search_%d", level)] = res
			continue
		}
		r := &renderer{s: s, vc: vc, st: vc.st0, arrays: map[string]string{}, ptrs: map[string]string{}, model: map[string]string{}}
		var args []string
		for i, p := range vc.fn.Params {
			args = append(args, r.render(p.Type(), vc.params[vc.con.Params[i]], 0))
		}
		// scalar results the counter-model predicts for this return (oracle for postconditions of side-effect free functions)
		var predicted []string
		if o.Kind == "post" && len(o.ResultSVs) > 0 && r.fail == "" {
			for _, rv := range o.ResultSVs {
				sc, ok := rv.(Sc)
				if !ok || (sc.S != "Int" && sc.S != "Bool") {
					predicted = nil
					break
				}
				v := r.val(sc.T)
				if n, isInt := parseIntVal(v); isInt {
					v = fmt.Sprint(n)
				}
				predicted = append(predicted, v)
			}
		}
		s.close()
		if r.fail != "" {
			info[fmt.Sprintf("candidate_render_%d", level)] = r.fail
			continue
		}
		o.Model = r.model
		test := e.replayTest(vc, o, r, args)
		info["go_test"] = test
		info["candidate_args"] = args
		if len(r.approx) > 0 {
			info["approximations"] = r.approx
		}
		out, verdict := e.runOverlayTest(vc, test, outDir, o)
		if len(predicted) > 0 && len(r.approx) == 0 && !strings.HasPrefix(verdict, "CONFIRMED") && strings.Contains(out, "GOVC-RETURNED") &&
			(vc.con.Assigns == "nothing" || vc.con.Pure) {
			// the function has no side effects, its inputs were rendered exactly, and the clause is false for the
			// (inputs, results) of the counter-model: if the real code returns exactly those results, it violates the clause
			same := true
			for j, pv := range predicted {
				m := regexp.MustCompile(fmt.Sprintf(`(?m)^GOVC-RESULT %d: (.*)$`, j)).FindStringSubmatch(out)
				if m == nil || strings.TrimSpace(m[1]) != pv {
					same = false
				}
			}
			info["predicted_results"] = predicted
			if same && !e.clauseRefuted(o, r.model, outDir) {
				// the candidate model came from the query WITHOUT quantified axioms; with them the clause may well
				// hold for these values, so this is not a confirmation
				same = false
				info["oracle_note"] = "real results equal the candidate model's, but with the full axioms the clause is not refuted for these inputs (candidate was an artefact of dropping axioms)"
			}
			if same {
				verdict = "CONFIRMED: the real function returns the results of the counter-model (" + strings.Join(predicted, ", ") + "), for which the clause is false"
			}
		}
		info["test_output"] = truncate(out, 4000)
		info["verdict"] = verdict
		if strings.HasPrefix(verdict, "CONFIRMED") {
			o.Replayed = true
			return
		}
	}
}

// clauseRefuted: with ALL axioms, the inputs pinned to the candidate model's values and the path condition
// asserted, the clause itself is unsatisfiable — i.e. for these inputs the function (as modelled) cannot satisfy it.
func (e *Engine) clauseRefuted(o *Obligation, model map[string]string, outDir string) bool {
	var body strings.Builder
	for _, l := range (*o.Script)[:o.Prefix] {
		body.WriteString(l + "\n")
	}
	for _, l := range o.Extra {
		body.WriteString(l + "\n")
	}
	lit := regexp.MustCompile(`^(\(- \d+\)|\d+|true|false)$`)
	for term, val := range model {
		if lit.MatchString(val) {
			body.WriteString("(assert (= " + term + " " + val + "))\n")
		}
	}
	body.WriteString("(assert " + o.Guard + ")\n(assert " + o.Goal + ")\n")
	b := body.String()
	txt := "; oracle for " + o.Name + ": clause asserted positively on the pinned candidate input\n(set-logic ALL)\n" + e.Prelude.Slice(b) + b + "(check-sat)\n"
	file := filepath.Join(outDir, strings.TrimSuffix(o.fileName(), ".smt2")+".oracle.smt2")
	os.WriteFile(file, []byte(txt), 0o644)
	for _, sp := range solvers[:2] {
		if rr := runSolver(context.Background(), sp, file, 10); rr.status == "unsat" {
			return true
		}
	}
	return false
}

func (e *Engine) replayTest(vc *VC, o *Obligation, r *renderer, args []string) string {
	fn := vc.fn
	var sb strings.Builder
	pkgName := fn.Pkg.Pkg.Name()
	fmt.Fprintf(&sb, "package %s\n\nimport (\n\t\"fmt\"\n\t\"math\"\n\t\"reflect\"\n\t\"testing\"\n)\n\nvar _ = math.Pi\nvar _ = reflect.DeepEqual\n\n", pkgName)
	sb.WriteString(`type govcTracked struct {
	name string
	live interface{}
	snap interface{}
}

var govcTracks []govcTracked

func govcTrack(name string, s interface{}) {
	v := reflect.ValueOf(s)
	c := reflect.MakeSlice(v.Type(), v.Len(), v.Len())
	reflect.Copy(c, v)
	govcTracks = append(govcTracks, govcTracked{name, s, c.Interface()})
}

func govcShow(v interface{}) (s string) {
	defer func() {
		if r := recover(); r != nil {
			s = fmt.Sprintf("<unprintable: %v>", r)
		}
	}()
	return fmt.Sprintf("%#v", v)
}

`)
	fmt.Fprintf(&sb, "// replay of obligation %s\nfunc TestGovcReplay(t *testing.T) {\n", o.Name)
	for _, l := range r.pre {
		sb.WriteString("\t" + l + "\n")
	}
	call := ""
	if fn.Signature.Recv() != nil {
		call = fmt.Sprintf("(%s).%s(%s)", args[0], fn.Name(), strings.Join(args[1:], ", "))
	} else {
		call = fmt.Sprintf("%s(%s)", fn.Name(), strings.Join(args, ", "))
	}
	nres := fn.Signature.Results().Len()
	sb.WriteString("\tfunc() {\n\t\tdefer func() {\n\t\t\tif r := recover(); r != nil {\n\t\t\t\tfmt.Printf(\"GOVC-PANIC: %v\\n\", r)\n\t\t\t}\n\t\t}()\n")
	if nres == 0 {
		fmt.Fprintf(&sb, "\t\t%s\n", call)
	} else {
		var rs []string
		for i := 0; i < nres; i++ {
			rs = append(rs, fmt.Sprintf("r%d", i))
		}
		fmt.Fprintf(&sb, "\t\t%s := %s\n", strings.Join(rs, ", "), call)
		for i := 0; i < nres; i++ {
			fmt.Fprintf(&sb, "\t\tfmt.Printf(\"GOVC-RESULT %d: %%s\\n\", govcShow(r%d))\n", i, i)
		}
	}
	sb.WriteString("\t\tfmt.Println(\"GOVC-RETURNED\")\n\t}()\n")
	sb.WriteString("\tfor _, tr := range govcTracks {\n\t\tif !reflect.DeepEqual(tr.live, tr.snap) {\n\t\t\tfmt.Printf(\"GOVC-MUTATED %s: before %s after %s\\n\", tr.name, govcShow(tr.snap), govcShow(tr.live))\n\t\t}\n\t}\n")
	sb.WriteString("}\n")
	return sb.String()
}

// runOverlayTest runs the generated test inside the function's package without touching /repo.
func (e *Engine) runOverlayTest(vc *VC, test, outDir string, o *Obligation) (string, string) {
	dir := filepath.Join(outDir, "replay")
	os.MkdirAll(dir, 0o755)
	base := strings.TrimSuffix(o.fileName(), ".smt2")
	src := filepath.Join(dir, base+"_test.go")
	os.WriteFile(src, []byte(test), 0o644)
	pkgDir := filepath.Join(e.RepoDir, relPkg(vc.fn.Pkg.Pkg.Path()))
	target := filepath.Join(pkgDir, "zz_govc_replay_test.go")
	ov, _ := json.Marshal(map[string]interface{}{"Replace": map[string]string{target: src}})
	ovFile := filepath.Join(dir, base+".overlay.json")
	os.WriteFile(ovFile, ov, 0o644)
	cmd := exec.Command("go", "test", "-overlay", ovFile, "-vet=off", "-count=1", "-v", "-timeout", "60s", "-run", "^TestGovcReplay$", ".")
	cmd.Dir = pkgDir
	cmd.Env = append(os.Environ(), "GOFLAGS=-mod=mod", "GOPROXY=off")
	done := make(chan struct{})
	var out []byte
	go func() {
		out, _ = cmd.CombinedOutput()
		close(done)
	}()
	select {
	case <-done:
	case <-time.After(300 * time.Second):
		cmd.Process.Kill()
		return string(out), "replay timed out"
	}
	s := string(out)
	return s, replayVerdict(o, s)
}

func replayVerdict(o *Obligation, out string) string {
	panicked := strings.Contains(out, "GOVC-PANIC:") || strings.Contains(out, "panic:") || strings.Contains(out, "fatal error:")
	mutated := strings.Contains(out, "GOVC-MUTATED")
	switch {
	case strings.HasPrefix(o.Kind, "safe."):
		if panicked {
			return "CONFIRMED: the real function panics on this input"
		}
		return "candidate did not reproduce (no panic)"
	case o.Kind == "frame" || strings.Contains(o.Name, ".frame."):
		if mutated {
			return "CONFIRMED: memory that existed before the call was changed"
		}
		return "candidate did not reproduce (no pre-existing memory changed)"
	case o.Kind == "pre":
		if panicked {
			return "CONFIRMED: the real function panics on this input (callee precondition violated)"
		}
	}
	if panicked {
		return "candidate panicked (a crash, but not a confirmation of this clause)"
	}
	if strings.Contains(out, "GOVC-RETURNED") {
		return "candidate executed; observed result recorded (no executable oracle for this clause)"
	}
	return "replay did not run to completion"
}

func runReplayTest(rep map[string]interface{}, test string) int {
	fn, _ := rep["function"].(string)
	e, err := Load(repoDir, verifDir, contractPackages())
	if err != nil {
		fmt.Fprintln(os.Stderr, err)
		return 2
	}
	f := e.Funcs[fn]
	if f == nil {
		fmt.Fprintln(os.Stderr, "unknown function", fn)
		return 2
	}
	vc := &VC{eng: e, fn: f}
	o := &Obligation{Name: fmt.Sprint(rep["obligation"]), Kind: fmt.Sprint(rep["kind"])}
	out, verdict := e.runOverlayTest(vc, test, filepath.Join(verifDir, "out", "replay"), o)
	fmt.Println(out)
	fmt.Println("verdict:", verdict)
	if strings.HasPrefix(verdict, "CONFIRMED") {
		return 1
	}
	return 0
}
