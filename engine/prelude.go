package main

// Raw SMT-LIB prelude (/verif/specs/*.smt2): sorts, uninterpreted specification functions and
// axioms. Each query includes only the prelude items whose symbols it (transitively) mentions.

import (
	"fmt"
	"os"
	"path/filepath"
	"sort"
	"strings"
)

type preItem struct {
	text    string
	decl    string   // declared symbol ("" for assert)
	uses    []string // prelude symbols referenced
	isSort  bool
	argS    []string // for declare-fun/define-fun: argument sorts
	retS    string
	file    string
	comment string
}

type Prelude struct {
	items []*preItem
	bySym map[string]*preItem
	groups map[string][]string // symbol -> symbols that must accompany it (boxing functions of one type)
	Files []string
}

func splitSexprs(s string) []string {
	var out []string
	depth, start := 0, -1
	inComment, inStr := false, false
	for i := 0; i < len(s); i++ {
		c := s[i]
		if inComment {
			if c == '\n' {
				inComment = false
			}
			continue
		}
		if inStr {
			if c == '"' {
				inStr = false
			}
			continue
		}
		switch c {
		case ';':
			inComment = true
		case '"':
			inStr = true
		case '(':
			if depth == 0 {
				start = i
			}
			depth++
		case ')':
			depth--
			if depth == 0 && start >= 0 {
				out = append(out, s[start:i+1])
				start = -1
			}
		}
	}
	return out
}

func stripComments(s string) string {
	var sb strings.Builder
	for _, ln := range strings.Split(s, "\n") {
		if i := strings.Index(ln, ";"); i >= 0 {
			ln = ln[:i]
		}
		sb.WriteString(ln)
		sb.WriteString("\n")
	}
	return sb.String()
}

func tokenize(s string) []string {
	f := func(c rune) bool { return c == '(' || c == ')' || c == ' ' || c == '\n' || c == '\t' }
	return strings.FieldsFunc(s, f)
}

// parse "(A B C)" top-level list into elements (each element either atom or balanced list text)
func listElems(s string) []string {
	s = strings.TrimSpace(s)
	if !strings.HasPrefix(s, "(") {
		return []string{s}
	}
	s = s[1 : len(s)-1]
	var out []string
	depth, start := 0, -1
	for i := 0; i < len(s); i++ {
		c := s[i]
		switch {
		case c == '(':
			if depth == 0 && start < 0 {
				start = i
			}
			depth++
		case c == ')':
			depth--
			if depth == 0 {
				out = append(out, s[start:i+1])
				start = -1
			}
		case c == ' ' || c == '\n' || c == '\t':
			if depth == 0 && start >= 0 {
				out = append(out, s[start:i])
				start = -1
			}
		default:
			if start < 0 {
				start = i
			}
		}
	}
	if start >= 0 {
		out = append(out, s[start:])
	}
	return out
}

func LoadPrelude(dir string, auto string, groups map[string][]string) (*Prelude, error) {
	p := &Prelude{bySym: map[string]*preItem{}, groups: groups}
	files, _ := filepath.Glob(filepath.Join(dir, "*.smt2"))
	sort.Strings(files)
	// 00_core first, then the generated per-type declarations, then the rest
	var texts []struct{ name, text string }
	for i, f := range files {
		b, err := os.ReadFile(f)
		if err != nil {
			return nil, err
		}
		p.Files = append(p.Files, f)
		texts = append(texts, struct{ name, text string }{f, string(b)})
		if i == 0 {
			texts = append(texts, struct{ name, text string }{"<generated type declarations>", auto})
		}
	}
	for _, tx := range texts {
		f := tx.name
		for _, sx := range splitSexprs(tx.text) {
			sx = strings.TrimSpace(stripComments(sx))
			el := listElems(sx)
			it := &preItem{text: sx, file: f}
			switch el[0] {
			case "declare-sort":
				it.decl, it.isSort = el[1], true
			case "define-sort":
				it.decl, it.isSort = el[1], true
			case "declare-fun":
				it.decl = el[1]
				it.argS = listElems(el[2])
				if el[2] == "()" {
					it.argS = nil
				}
				it.retS = el[3]
			case "declare-const":
				it.decl = el[1]
				it.retS = el[2]
			case "define-fun", "define-fun-rec":
				it.decl = el[1]
				if el[2] != "()" {
					for _, a := range listElems(el[2]) {
						ae := listElems(a)
						it.argS = append(it.argS, ae[1])
					}
				}
				it.retS = el[3]
			case "assert":
			default:
				return nil, fmt.Errorf("%s: unsupported prelude command %s", f, el[0])
			}
			if it.decl != "" {
				if _, dup := p.bySym[it.decl]; dup {
					return nil, fmt.Errorf("%s: duplicate prelude symbol %s", f, it.decl)
				}
				p.bySym[it.decl] = it
			}
			p.items = append(p.items, it)
		}
	}
	// companion symbols: a declared symbol named <sym>.<suffix> where <sym> is itself a prelude symbol
	// (skolem / witness functions that occur only in axioms about <sym>) accompanies <sym>
	for name := range p.bySym {
		if i := strings.LastIndex(name, "."); i > 0 {
			if owner := name[:i]; p.bySym[owner] != nil && !p.bySym[owner].isSort {
				if p.groups == nil {
					p.groups = map[string][]string{}
				}
				p.groups[owner] = append(p.groups[owner], name)
			}
		}
	}
	for _, it := range p.items {
		seen := map[string]bool{}
		for _, t := range tokenize(it.text) {
			if t != it.decl && p.bySym[t] != nil && !seen[t] {
				seen[t] = true
				it.uses = append(it.uses, t)
			}
		}
	}
	return p, nil
}

// Slice returns the prelude text needed for a query body.
func (p *Prelude) Slice(body string) string {
	need := map[string]bool{}
	var work []string
	var add func(s string)
	add = func(s string) {
		if p.bySym[s] != nil && !need[s] {
			need[s] = true
			work = append(work, s)
			for _, g := range p.groups[s] {
				add(g)
			}
			// definitional axioms (`(assert (! ... :named def.<sym>))`) travel with <sym> (prelude_defs.go)
			for _, u := range p.defUses(s) {
				add(u)
			}
		}
	}
	for _, t := range tokenize(body) {
		add(t)
	}
	for changed := true; changed; {
		changed = false
		for len(work) > 0 {
			s := work[len(work)-1]
			work = work[:len(work)-1]
			for _, u := range p.bySym[s].uses {
				add(u)
			}
		}
		// axioms all of whose non-sort symbols are needed pull in their sorts
		for _, it := range p.items {
			if it.decl != "" {
				continue
			}
			ok := true
			for _, u := range it.uses {
				// type-tag constants (tag.<type>, generated define-funs) never block an axiom: queries
				// mention tags by number, so an axiom keyed on a tag must not wait for the symbol. Likewise
				// define-fun'd helpers (pure abbreviations) are pulled in rather than waited for.
				if !need[u] && !p.bySym[u].isSort && !strings.HasPrefix(u, "tag.") && !strings.HasPrefix(p.bySym[u].text, "(define-fun") {
					ok = false
					break
				}
			}
			if ok {
				for _, u := range it.uses {
					if !need[u] {
						add(u)
						changed = true
					}
				}
			}
		}
	}
	var sb strings.Builder
	for _, it := range p.items {
		if it.decl != "" {
			if need[it.decl] {
				sb.WriteString(it.text + "\n")
			}
			continue
		}
		ok := len(it.uses) > 0
		for _, u := range it.uses {
			if !need[u] {
				ok = false
				break
			}
		}
		if ok {
			sb.WriteString(it.text + "\n")
		}
	}
	return sb.String()
}

func (p *Prelude) Sig(name string) (args []string, ret string, ok bool) {
	it := p.bySym[name]
	if it == nil || it.isSort {
		return nil, "", false
	}
	return it.argS, it.retS, true
}
