package main

// Thorough tier: the must-fail corpus of a property (tools/selftest.py over /verif/selftest/<Cxx>-*.json).

import (
	"os/exec"
	"path/filepath"
	"strings"
)

func runSelftest(prop string) map[string]interface{} {
	res := map[string]interface{}{}
	files, _ := filepath.Glob(filepath.Join(verifDir, "selftest", prop+"-*.json"))
	res["mutants"] = len(files)
	if len(files) == 0 {
		return res
	}
	cmd := exec.Command("python3", filepath.Join(verifDir, "tools", "selftest.py"), "-j", "3", prop+"-")
	out, _ := cmd.CombinedOutput()
	detected := 0
	var missed []string
	for _, l := range strings.Split(string(out), "\n") {
		f := strings.Fields(l)
		if len(f) < 2 {
			continue
		}
		switch f[0] {
		case "DETECTED":
			detected++
		case "MISSED", "STALE", "ERROR":
			missed = append(missed, f[1]+" ("+f[0]+")")
		}
	}
	res["detected"] = detected
	res["not_detected"] = missed
	return res
}
