package main

// fnapply (w-c05): the result of a call through a `fnparam ... pure` function value, named in specifications.
//
//   fnapply(rel.SafeTailCallback, t, ctx, value, local)
//
// denotes the value(s) the engine uses for the call `t(ctx, value, local)` when calls through function values
// are modelled as pure (call.go, mode "pure": the uninterpreted functions apply.<signature>.<i>). The first
// argument names a Go func type (a named type whose underlying type is a signature) and fixes which signature
// is meant; the second is the function value; the rest are the arguments. A multi-result signature yields a
// tuple: use `.0`, `.1` on it. Nothing is assumed by the builtin itself: it only gives the term a name.

import (
	"fmt"
	"go/types"
)

func (e *Env) fnApply(n ECall) SV {
	vc := e.vc
	if len(n.Args) < 2 {
		e.fail("fnapply(FuncType, f, args...)")
	}
	tn := typeNameOf(n.Args[0])
	t, err := vc.eng.resolveType(tn, e.pkg)
	if err != nil {
		e.fail("%v", err)
	}
	sig, ok := t.Underlying().(*types.Signature)
	if !ok {
		e.fail("fnapply: %s is not a func type", tn)
	}
	fv, ok := e.eval(n.Args[1]).(Sc)
	if !ok || fv.S != "Fn" {
		e.fail("fnapply: second argument must be a function value")
	}
	ls := []string{fv.T}
	sorts := []string{"Fn"}
	for _, a := range n.Args[2:] {
		v := e.eval(a)
		if _, isNil := v.(NilSV); isNil {
			ls = append(ls, "nilVal")
			sorts = append(sorts, "Val")
			continue
		}
		ls = append(ls, toLeaves(v)...)
		sorts = append(sorts, svSorts(v)...)
	}
	var rt types.Type = sig.Results()
	if sig.Results().Len() == 1 {
		rt = sig.Results().At(0).Type()
	}
	rs := sortsOf(rt)
	s := sanitize(types.TypeString(sig, nil))
	out := make([]string, len(rs))
	for i := range rs {
		f := fmt.Sprintf("apply.%s.%d", s, i)
		vc.declareFun(f, sorts, rs[i])
		out[i] = app(f, ls...)
	}
	return mkSV(rt, out)
}
