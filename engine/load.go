package main

import (
	"fmt"
	"go/types"
	"os"
	"path/filepath"
	"sort"
	"strings"

	"golang.org/x/tools/go/packages"
	"golang.org/x/tools/go/ssa"
	"golang.org/x/tools/go/ssa/ssautil"
)

const modPath = "github.com/arr-ai/arrai"

type Engine struct {
	RepoDir  string
	VerifDir string
	Prog     *ssa.Program
	Pkgs     map[string]*ssa.Package // key: path relative to module ("rel", "pkg/arrai")
	CS       *ContractSet
	Funcs    map[string]*ssa.Function // key → function (repo packages only, incl. anonymous)
	Tags     map[string]int           // type string → tag
	TagTypes []types.Type
	Notes    map[string]bool // assumptions / dropped constructs collected while generating
	Prelude  *Prelude
	Findings []Finding

	constGlobals  map[*ssa.Global]bool
	storedGlobals map[*ssa.Global]bool
	actorChecked  bool // effects.go
	actorBad      []string
	recCalls      map[string]bool // effects.go: functions whose calls are recorded for lastcall()
	onceChecked   map[string]error // onceinv.go (x-c17)
	projLits      map[string]bool // captproj.go (x-c17): literals whose captured variables are projected
}

func relPkg(path string) string {
	if path == modPath {
		return "."
	}
	return strings.TrimPrefix(path, modPath+"/")
}

func inRepo(p *types.Package) bool {
	return p != nil && (p.Path() == modPath || strings.HasPrefix(p.Path(), modPath+"/"))
}

func pkgKey(p *types.Package) string {
	if p == nil {
		return ""
	}
	if inRepo(p) {
		return relPkg(p.Path())
	}
	return p.Name()
}

// typeKey renders a (possibly pointer) named type as "rel.String" / "*rel.stringEnumerator".
func typeKey(t types.Type) string {
	star := ""
	if p, ok := t.(*types.Pointer); ok {
		star = "*"
		t = p.Elem()
	}
	if n, ok := t.(*types.Named); ok {
		return star + pkgKey(n.Obj().Pkg()) + "." + n.Obj().Name()
	}
	return star + types.TypeString(t, func(p *types.Package) string { return pkgKey(p) })
}

// funcKey is the name contracts use for a function.
func funcKey(f *ssa.Function) string {
	name := f.Name()
	if f.Parent() != nil { // anonymous function: Parent$N
		return funcKey(f.Parent()) + "$" + strings.TrimPrefix(name, f.Parent().Name()+"$")
	}
	if recv := f.Signature.Recv(); recv != nil {
		return "(" + typeKey(recv.Type()) + ")." + name
	}
	if f.Pkg != nil {
		return pkgKey(f.Pkg.Pkg) + "." + name
	}
	if f.Object() != nil && f.Object().Pkg() != nil {
		return pkgKey(f.Object().Pkg()) + "." + name
	}
	return name
}

func methodKey(m *types.Func) string {
	sig := m.Type().(*types.Signature)
	if recv := sig.Recv(); recv != nil {
		return "(" + typeKey(recv.Type()) + ")." + m.Name()
	}
	return pkgKey(m.Pkg()) + "." + m.Name()
}

func Load(repo, verif string, pkgPaths []string) (*Engine, error) {
	cfg := &packages.Config{Mode: packages.LoadAllSyntax, Dir: repo, BuildFlags: []string{"-tags=verif"},
		Env: append(os.Environ(), "GOFLAGS=-mod=mod", "GOPROXY=off")}
	var pats []string
	for _, p := range pkgPaths {
		pats = append(pats, "./"+p)
	}
	pkgs, err := packages.Load(cfg, pats...)
	if err != nil {
		return nil, err
	}
	nerr := 0
	packages.Visit(pkgs, nil, func(p *packages.Package) {
		for _, e := range p.Errors {
			if inRepoPath(p.PkgPath) {
				fmt.Fprintf(os.Stderr, "load error: %s: %v\n", p.PkgPath, e)
				nerr++
			}
		}
	})
	if nerr > 0 {
		return nil, fmt.Errorf("%d package load errors", nerr)
	}
	prog, _ := ssautil.AllPackages(pkgs, ssa.GlobalDebug)
	prog.Build()
	e := &Engine{RepoDir: repo, VerifDir: verif, Prog: prog, Pkgs: map[string]*ssa.Package{},
		Funcs: map[string]*ssa.Function{}, Tags: map[string]int{}, Notes: map[string]bool{}, CS: NewContractSet()}
	for _, sp := range prog.AllPackages() {
		if !inRepo(sp.Pkg) {
			continue
		}
		e.Pkgs[relPkg(sp.Pkg.Path())] = sp
	}
	for fn := range ssautil.AllFunctions(prog) {
		if fn.Pkg != nil && inRepo(fn.Pkg.Pkg) || fn.Parent() != nil && fn.Parent().Pkg != nil && inRepo(fn.Parent().Pkg.Pkg) {
			if fn.Synthetic != "" {
				continue
			}
			e.Funcs[funcKey(fn)] = fn
		}
	}
	// Pre-allocate tags for every named type (and its pointer) of repo packages, in sorted order.
	var names []string
	byName := map[string]types.Type{}
	for _, sp := range e.Pkgs {
		sc := sp.Pkg.Scope()
		for _, n := range sc.Names() {
			if tn, ok := sc.Lookup(n).(*types.TypeName); ok && !tn.IsAlias() {
				if _, isIface := tn.Type().Underlying().(*types.Interface); isIface {
					continue
				}
				if named, ok := tn.Type().(*types.Named); ok && named.TypeParams().Len() > 0 {
					continue
				}
				for _, t := range []types.Type{tn.Type(), types.NewPointer(tn.Type())} {
					k := typeKey(t)
					names = append(names, k)
					byName[k] = t
				}
			}
		}
	}
	sort.Strings(names)
	for _, k := range names {
		e.tagOf(byName[k])
	}
	// Contract files: shared specs first, then one per repo package.
	specs, _ := filepath.Glob(filepath.Join(verif, "specs", "*.spec"))
	sort.Strings(specs)
	for _, f := range specs {
		if err := e.CS.LoadFile(f, ""); err != nil {
			return nil, err
		}
	}
	var keys []string
	for k := range e.Pkgs {
		keys = append(keys, k)
	}
	sort.Strings(keys)
	for _, k := range keys {
		fs, _ := filepath.Glob(filepath.Join(repo, k, "verif_contracts*.go"))
		sort.Strings(fs)
		for _, f := range fs {
			if only := os.Getenv("VERIF_ONLY"); only != "" {
				// development aid: restrict to contract files whose path contains one of the given substrings
				keep := false
				for _, sub := range strings.Split(only, ",") {
					if strings.Contains(f, sub) {
						keep = true
					}
				}
				if !keep {
					continue
				}
			}
			if err := e.CS.LoadFile(f, k); err != nil {
				return nil, err
			}
		}
	}
	// generated declarations: tag constants, boxing constructors and projections of every tagged type
	var auto strings.Builder
	groups := map[string][]string{}
	for i, t := range e.TagTypes {
		tn := typeName(t)
		fmt.Fprintf(&auto, "(define-fun tag.%s () Int %d)\n", tn, i+1)
		sorts := sortsOf(t)
		names := leafNames(t)
		fmt.Fprintf(&auto, "(declare-fun mk.%s (%s) Val)\n", tn, strings.Join(sorts, " "))
		var projs, bvs, bnames []string
		for j, s := range sorts {
			p := fmt.Sprintf("pj.%s.%d", tn, j)
			if names[j] != "" {
				p += "." + names[j]
			}
			fmt.Fprintf(&auto, "(declare-fun %s (Val) %s)\n", p, s)
			projs = append(projs, p)
			groups[p] = []string{"mk." + tn, "tag." + tn}
			groups["mk."+tn] = append(groups["mk."+tn], p)
			bvs = append(bvs, fmt.Sprintf("(l%d %s)", j, s))
			bnames = append(bnames, fmt.Sprintf("l%d", j))
		}
		// boxing axioms: projections invert the constructor; a value of this tag is its constructor applied to its projections
		if len(sorts) == 0 {
			fmt.Fprintf(&auto, "(assert (= (tagof mk.%s) tag.%s))\n", tn, tn)
			fmt.Fprintf(&auto, "(assert (forall ((v Val)) (! (=> (= (tagof v) tag.%s) (= v mk.%s)) :pattern ((tagof v)))))\n", tn, tn)
			continue
		}
		mk := fmt.Sprintf("(mk.%s %s)", tn, strings.Join(bnames, " "))
		var conj []string
		conj = append(conj, fmt.Sprintf("(= (tagof %s) tag.%s)", mk, tn))
		for j, p := range projs {
			conj = append(conj, fmt.Sprintf("(= (%s %s) l%d)", p, mk, j))
		}
		fmt.Fprintf(&auto, "(assert (forall (%s) (! (and %s) :pattern (%s))))\n", strings.Join(bvs, " "), strings.Join(conj, " "), mk)
		var pv []string
		for _, p := range projs {
			pv = append(pv, fmt.Sprintf("(%s v)", p))
		}
		// surjectivity (a value of this tag is its constructor applied to its projections) is instantiated only
		// for terms where the re-boxed value is already mentioned; ground instances are asserted by unbox().
		// (A pattern on a bare projection made the solvers diverge on queries mentioning several sugar types.)
		fmt.Fprintf(&auto, "(assert (forall ((v Val)) (! (=> (= (tagof v) tag.%s) (= v (mk.%s %s))) :pattern ((mk.%s %s)))))\n", tn, tn, strings.Join(pv, " "), tn, strings.Join(pv, " "))
	}
	pre, err := LoadPrelude(filepath.Join(verif, "specs"), auto.String(), groups)
	if err != nil {
		return nil, err
	}
	e.Prelude = pre
	return e, nil
}

func inRepoPath(p string) bool { return p == modPath || strings.HasPrefix(p, modPath+"/") }

func (e *Engine) tagOf(t types.Type) int {
	k := typeKey(t)
	if n, ok := e.Tags[k]; ok {
		return n
	}
	n := len(e.Tags) + 1
	e.Tags[k] = n
	e.TagTypes = append(e.TagTypes, t)
	return n
}

func (e *Engine) note(s string) { e.Notes[s] = true }

// globalIsConstant: no function other than the package initialiser stores to the global.
func (e *Engine) globalIsConstant(g *ssa.Global) bool {
	if e.constGlobals == nil {
		e.constGlobals = map[*ssa.Global]bool{}
		e.storedGlobals = map[*ssa.Global]bool{}
		for _, fn := range e.Funcs {
			if fn.Name() == "init" || strings.HasPrefix(fn.Name(), "init#") {
				continue
			}
			for _, b := range fn.Blocks {
				for _, in := range b.Instrs {
					if s, ok := in.(*ssa.Store); ok {
						if gg, ok := s.Addr.(*ssa.Global); ok {
							e.storedGlobals[gg] = true
						}
					}
				}
			}
		}
	}
	return !e.storedGlobals[g]
}

// resolveType finds a named type from a spec-language type name like "rel.String" or "*rel.GenericTuple".
func (e *Engine) resolveType(name, defPkg string) (types.Type, error) {
	star := strings.HasPrefix(name, "*")
	name = strings.TrimPrefix(name, "*")
	pkg, tn := defPkg, name
	if i := strings.LastIndex(name, "."); i >= 0 {
		pkg, tn = name[:i], name[i+1:]
	}
	if !strings.Contains(name, ".") {
		// predeclared types (int, rune, string, ...) — w-c12
		if obj, isT := types.Universe.Lookup(tn).(*types.TypeName); isT && obj != nil {
			if star {
				return types.NewPointer(obj.Type()), nil
			}
			return obj.Type(), nil
		}
	}
	sp, ok := e.Pkgs[pkg]
	if !ok {
		// try by last path element
		for k, p := range e.Pkgs {
			if filepath.Base(k) == pkg {
				sp, ok = p, true
			}
		}
	}
	if !ok {
		return nil, fmt.Errorf("unknown package %q in type %s", pkg, name)
	}
	obj := sp.Pkg.Scope().Lookup(tn)
	if obj == nil {
		return nil, fmt.Errorf("unknown type %s", name)
	}
	t := obj.Type()
	if star {
		t = types.NewPointer(t)
	}
	return t, nil
}
