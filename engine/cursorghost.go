package main

// Cursor ghosts (x-c01).
//
//   //@ ghost cursor enseen: (Array Val (Array Val Bool))
//
// declares ghost state that records the PROGRESS OF AN ENUMERATOR / ITERATOR object (which set it ranges over, what it
// has produced so far, its current value), keyed by the enumerator value. It is the specification-level counterpart of
// the engine's own range cursors (`G|seen.*`, isIterGhost), and like them it is not part of a function's frame:
//
//   * a function that does not list a cursor ghost under `modifies` gets NO frame obligation for it (creating and
//     advancing its own enumerators is not a write to caller-visible memory; C03 is about values);
//   * nothing else changes: at a call site the ghost is havocked exactly when the callee's contract lists it, and a
//     contract that lists it is verified against its own ensures as always.
//
// Why: with ordinary ghosts every function that (transitively) enumerates a set has to list the whole group, the
// obligation cascades to every caller with a frame, and each new enumeration ghost (w-c01: en*/it*/mit*, x-c06:
// enord/enpos) breaks the frames of all of them (the `frame.G.en*` entries of /verif/unclaimed.json).
//
// Residual assumption (stated once here instead of one withdrawn obligation per function): a callee whose contract
// does not list a cursor ghost does not advance an enumerator that its CALLER created. Enumerators are local objects
// of the loop that drives them; the repo functions that receive one as an argument (rel.OrderedValueEnumerator and
// the enumerator wrappers) must list the group. This is the same assumption the withdrawn frame obligations left open.

import "strings"

var cursorGhosts = map[string]bool{}

// Two spellings. `ghost cursor g: sort` declares g as a cursor ghost. `ghost cursor.g: Bool` is a MARKER that makes the
// separately declared ghost g a cursor ghost; binaries built before this file existed read the marker as an unused ghost
// variable, so spec files using it stay loadable by every worker's binary (35_sets.spec uses the marker form).
func registerCursorGhost(name string) (string, bool) {
	if strings.HasPrefix(name, "cursor.") {
		cursorGhosts[strings.TrimSpace(name[7:])] = true
		return name, false
	}
	if strings.HasPrefix(name, "cursor ") {
		name = strings.TrimSpace(name[7:])
		cursorGhosts[name] = true
		return name, true
	}
	return name, false
}

func isCursorGhost(k string) bool {
	return strings.HasPrefix(k, "G|") && cursorGhosts[k[2:]]
}
