package main

// Relevance slicing of a VC script (added by w-c04).
//
// The script of a function is one SSA-like sequence of `declare-fun` / `assert` lines that is shared
// by all obligations of the function, so an obligation at a loop exit also sees the definitions made
// by the (dead) loop body after the header: fresh rows with quantified copy facts, segcopy atoms, ...
// They are irrelevant for the goal but can send the solvers into `unknown`/timeouts.
//
// sliceScript keeps an assertion only if the NEWEST script-declared symbol it mentions is relevant
// for the goal (an assertion is regarded as a constraint on its newest symbol), walking backwards
// from the goal and growing the relevant set with the symbols of every kept assertion. Assertions
// that mention no script-declared symbol are kept. Dropping assumptions can only make an obligation
// harder to prove, never easier, so the slice is sound by construction; it is used only as a
// fallback after the full query has failed (solve.go, stage 3).

import "strings"

func smtTokens(s string, f func(tok string)) {
	start := -1
	inBar := false
	for i := 0; i < len(s); i++ {
		c := s[i]
		if inBar {
			if c == '|' {
				inBar = false
				f(s[start : i+1])
				start = -1
			}
			continue
		}
		switch c {
		case '|':
			if start >= 0 {
				f(s[start:i])
			}
			start = i
			inBar = true
		case ' ', '\t', '\n', '(', ')':
			if start >= 0 {
				f(s[start:i])
				start = -1
			}
		default:
			if start < 0 {
				start = i
			}
		}
	}
	if start >= 0 && !inBar {
		f(s[start:])
	}
}

// sliceScript returns the lines of `lines` relevant for `goal` (any SMT text: the negated goal and
// obligation-local extras). The bool result is false when nothing was dropped.
func sliceScript(lines []string, goal string) ([]string, bool) {
	declAt := map[string]int{}
	for i, l := range lines {
		t := strings.TrimSpace(l)
		for _, kw := range []string{"(declare-fun ", "(declare-const ", "(define-fun "} {
			if strings.HasPrefix(t, kw) {
				rest := t[len(kw):]
				name := ""
				smtTokens(rest, func(tok string) {
					if name == "" {
						name = tok
					}
				})
				if name != "" {
					if _, dup := declAt[name]; !dup {
						declAt[name] = i
					}
				}
			}
		}
	}
	rel := map[string]bool{}
	smtTokens(goal, func(tok string) {
		if _, ok := declAt[tok]; ok {
			rel[tok] = true
		}
	})
	keep := make([]bool, len(lines))
	dropped := false
	for i := len(lines) - 1; i >= 0; i-- {
		t := strings.TrimSpace(lines[i])
		if !strings.HasPrefix(t, "(assert") {
			continue // declarations are decided afterwards
		}
		newest, newestAt := "", -1
		var syms []string
		smtTokens(t, func(tok string) {
			if at, ok := declAt[tok]; ok {
				syms = append(syms, tok)
				if at > newestAt {
					newest, newestAt = tok, at
				}
			}
		})
		if newest == "" || rel[newest] {
			keep[i] = true
			for _, s := range syms {
				rel[s] = true
			}
		} else {
			dropped = true
		}
	}
	var out []string
	for i, l := range lines {
		t := strings.TrimSpace(l)
		if strings.HasPrefix(t, "(assert") {
			if keep[i] {
				out = append(out, l)
			}
			continue
		}
		// a define-fun body may mention further symbols; keep all declarations/definitions (cheap, harmless)
		out = append(out, l)
	}
	return out, dropped
}
