package main

// Development aid (w-c05): VERIF_FINDINGS_EXTRA=<file>[,<file>...] makes `func`/`check` also read finding
// proposals (a JSON list in the /verif/findings_proposed format: property, obligation, region, what) so that
// the |outside-region siblings of proposed findings can be tried before they are merged into
// known_findings.json. Without the variable nothing changes.

import (
	"encoding/json"
	"os"
	"strings"
)

func extraFindings() []Finding {
	var out []Finding
	for _, p := range strings.Split(os.Getenv("VERIF_FINDINGS_EXTRA"), ",") {
		p = strings.TrimSpace(p)
		if p == "" {
			continue
		}
		b, err := os.ReadFile(p)
		if err != nil {
			continue
		}
		var fs []Finding
		if json.Unmarshal(b, &fs) != nil {
			continue
		}
		for _, f := range fs {
			if f.Kind == "" {
				f.Kind = "finding"
			}
			out = append(out, f)
		}
	}
	return out
}
