package main

// Contract files: comment-only Go files (build tag verif) inside /repo, one per package, plus
// shared spec files under /verif/specs. Only lines starting with "//@" are read.
//
//   //@ func (String).with(s; at, char)
//   //@   requires <expr>
//   //@   ensures[C01,C02] label: <expr>
//   //@   assigns fresh-only | assigns nothing | modifies <state,...>
//   //@   loop <k> invariant <expr>      loop <k> decreases <expr>
//   //@   tags C10,C14     overflow checked     abstract <what>   fnparam f pure
//   //@ interface Value.Equal(a; b)     (assumed for implementers without their own contract)
//   //@ extern strings.HasPrefix(s, p)  (assumed contract on a dependency)
//   //@ spec window(subject, j, sub) = <expr>   (macro, expanded in place)
//   //@ lemma[C06] name(a: Val, b: Val) requires .. ensures ..
//   //@ ghost fswrites: Int

import (
	"bufio"
	"fmt"
	"os"
	"regexp"
	"strconv"
	"strings"
)

type Clause struct {
	Kind  string // requires ensures invariant decreases
	Props []string
	Label string
	Expr  Expr
	Text  string
	Loop  int
	File  string
	Line  int
}

type Contract struct {
	Kind     string // func interface extern lemma
	Name     string // e.g. "rel.(String).with", "syntax.search", "rel.Value.Equal", "strings.HasPrefix"
	Pkg      string
	Recv     string
	Params   []string
	Results  []string // optional names for results
	PSorts   []string // lemma param sorts
	Requires []*Clause
	Ensures  []*Clause
	Invs     []*Clause
	Decs     []*Clause
	Steps    []*Clause // loop k step: relation between one header visit and the next (loopstep.go)
	Assigns  string   // "", "fresh-only", "nothing", "any"
	Modifies []string // state names writable in addition
	Tags     []string // properties that implicit safety obligations belong to
	Props    []string // lemma props
	Overflow bool
	Abstract []string
	FnParams map[string]string
	Pure     bool
	Trusted  bool // contract assumed, body not verified (listed in trusted base)
	NoBody   bool
	File     string
	Line     int
	Waive    []string // obligation name patterns that are known findings handled elsewhere
	Calls    []CallClause
	GhostEntry []GhostAssign // ghost assignments executed at function entry (ghost.go)
	GhostExit  []GhostAssign // ghost assignments executed at every return (ghost.go)
	IterEns  []*Clause // `loop k ensures`: per-iteration postconditions, checked at back edges only (effects.go)
}

type CallClause struct {
	Var  string
	Key  string
	Args []Expr
}

type SpecMacro struct {
	Name   string
	Params []string
	Body   Expr
	Text   string
}

type GhostVar struct {
	Name string
	Sort string
}

type ContractSet struct {
	Contracts map[string]*Contract
	Order     []*Contract
	Macros    map[string]*SpecMacro
	Ghosts    []GhostVar
	GlobalFacts map[string][]Expr
	Shadowed  []string // duplicate assumed contracts that were ignored
	Files     []string
	Decls     effectDecls // fnfield / actorchan / guarded declarations (effects.go)
}

var clauseKW = regexp.MustCompile(`^(func|interface|extern|lemma|spec|ghost|globalfact|fnfield|actorchan|guarded|propagate|requires|ensures|assigns|modifies|loop|tags|overflow|abstract|fnparam|pure|trusted|returns|waive|call|ghostentry|ghostexit)\b`)
var headRe = regexp.MustCompile(`^(func|interface|extern)\s+(\([^)]*\)\.)?([A-Za-z0-9_.$/\-]+)\s*\(([^)]*)\)\s*(.*)$`)
var lemmaRe = regexp.MustCompile(`^lemma(\[[^\]]*\])?\s+([A-Za-z0-9_.$]+)\s*\(([^)]*)\)\s*$`)
var specRe = regexp.MustCompile(`^spec\s+([A-Za-z0-9_$]+)\s*\(([^)]*)\)\s*=\s*(.*)$`)
var ensRe = regexp.MustCompile(`^(requires|ensures)(\[[^\]]*\])?\s+(?:([A-Za-z_][A-Za-z0-9_.]*):\s+)?(.*)$`)
var callRe = regexp.MustCompile(`^call\s+([A-Za-z_][A-Za-z0-9_]*)\s*=\s*(\(?[^()]*\)?\.?[A-Za-z0-9_.$/]+)\s*\((.*)\)\s*$`)
var loopRe = regexp.MustCompile(`^loop\s+(\d+)\s+(invariant|decreases|ensures|step)(\[[^\]]*\])?\s+(?:([A-Za-z_][A-Za-z0-9_.]*):\s+)?(.*)$`)

func splitList(s string) []string {
	var out []string
	for _, x := range strings.Split(s, ",") {
		x = strings.TrimSpace(x)
		if x != "" {
			out = append(out, x)
		}
	}
	return out
}

func parseProps(s string) []string {
	s = strings.Trim(s, "[]")
	return splitList(s)
}

type rawClause struct {
	text string
	file string
	line int
}

func NewContractSet() *ContractSet {
	return &ContractSet{Contracts: map[string]*Contract{}, Macros: map[string]*SpecMacro{}}
}

// LoadFile reads //@ lines of one file. pkg is the short package name for func names ("" for shared specs).
func (cs *ContractSet) LoadFile(path, pkg string) error {
	f, err := os.Open(path)
	if err != nil {
		return err
	}
	defer f.Close()
	cs.Files = append(cs.Files, path)
	var raws []rawClause
	sc := bufio.NewScanner(f)
	sc.Buffer(make([]byte, 1<<20), 1<<20)
	ln := 0
	for sc.Scan() {
		ln++
		line := strings.TrimSpace(sc.Text())
		if !strings.HasPrefix(line, "//@") {
			continue
		}
		body := strings.TrimSpace(line[3:])
		if i := strings.Index(body, " //"); i >= 0 { // trailing comment
			body = strings.TrimSpace(body[:i])
		}
		if body == "" || strings.HasPrefix(body, "//") {
			continue
		}
		if clauseKW.MatchString(body) || len(raws) == 0 {
			raws = append(raws, rawClause{body, path, ln})
		} else {
			raws[len(raws)-1].text += " " + body
		}
	}
	var cur *Contract
	for _, rc := range raws {
		t := rc.text
		errf := func(format string, a ...interface{}) error {
			return fmt.Errorf("%s:%d: %s", rc.file, rc.line, fmt.Sprintf(format, a...))
		}
		switch {
		case strings.HasPrefix(t, "func ") || strings.HasPrefix(t, "interface ") || strings.HasPrefix(t, "extern "):
			m := headRe.FindStringSubmatch(t)
			if m == nil {
				return errf("bad header: %s", t)
			}
			c := &Contract{Kind: m[1], Pkg: pkg, File: rc.file, Line: rc.line, FnParams: map[string]string{}}
			recv := strings.TrimSuffix(m[2], ".")
			name := m[3]
			switch c.Kind {
			case "func":
				if recv != "" {
					r := strings.Trim(recv, "()")
					star := ""
					if strings.HasPrefix(r, "*") {
						star, r = "*", r[1:]
					}
					if !strings.Contains(r, ".") {
						r = pkg + "." + r
					}
					c.Name = "(" + star + r + ")." + name
				} else {
					c.Name = pkg + "." + name
				}
			case "interface":
				// "rel.Value.Equal" -> "(rel.Value).Equal"
				i := strings.LastIndex(name, ".")
				if i < 0 {
					return errf("interface contract needs Iface.Method: %s", name)
				}
				it := name[:i]
				if !strings.Contains(it, ".") && pkg != "" {
					it = pkg + "." + it
				}
				c.Name = "(" + it + ")." + name[i+1:]
				c.Trusted = true
			case "extern":
				if recv != "" {
					c.Name = recv + "." + name
				} else {
					c.Name = name
				}
				c.Trusted = true
			}
			plist := m[4]
			if i := strings.Index(plist, ";"); i >= 0 {
				c.Recv = strings.TrimSpace(plist[:i])
				plist = plist[i+1:]
			}
			c.Params = splitList(plist)
			if c.Recv != "" {
				c.Params = append([]string{c.Recv}, c.Params...)
			}
			if rest := strings.TrimSpace(m[5]); rest != "" {
				return errf("trailing text after header: %s", rest)
			}
			if prev, dup := cs.Contracts[c.Name]; dup {
				if c.Kind == "func" {
					// w-c18: a function may be given clauses by several contract files (one per property);
					// the headers must bind the same parameter names, the clauses are merged
					// a header `func f(*)` binds no parameter names (clauses cannot mention parameters): it merges
					// with any other header of the same function
					star := func(ps []string) bool { return len(ps) == 1 && ps[0] == "*" }
					if prev.Kind == "func" && star(prev.Params) && !star(c.Params) {
						prev.Params, prev.Recv = c.Params, c.Recv
					} else if prev.Kind != "func" || (!star(c.Params) && strings.Join(prev.Params, ",") != strings.Join(c.Params, ",")) {
						return errf("duplicate contract %s with different parameter names", c.Name)
					}
					cur = prev
					continue
				}
				// assumed contracts (extern/interface) may be stated by several spec files. Identical headers
				// (same parameter names): the clauses are merged (w-c18: e.g. `requires[C18] auth` added to a
				// dependency function another property already describes). Otherwise the first one wins,
				// later ones are parsed but ignored
				if prev.Kind == c.Kind && strings.Join(prev.Params, ",") == strings.Join(c.Params, ",") {
					cur = prev
					continue
				}
				cs.Shadowed = append(cs.Shadowed, fmt.Sprintf("%s:%d %s", rc.file, rc.line, c.Name))
				cur = c
				continue
			}
			cs.Contracts[c.Name] = c
			cs.Order = append(cs.Order, c)
			cur = c
		case strings.HasPrefix(t, "lemma"):
			m := lemmaRe.FindStringSubmatch(t)
			if m == nil {
				return errf("bad lemma header: %s", t)
			}
			c := &Contract{Kind: "lemma", Pkg: pkg, Name: "lemma." + m[2], File: rc.file, Line: rc.line, FnParams: map[string]string{}}
			c.Props = parseProps(m[1])
			for _, p := range splitList(m[3]) {
				kv := strings.SplitN(p, ":", 2)
				if len(kv) != 2 {
					return errf("lemma parameter needs a sort: %s", p)
				}
				c.Params = append(c.Params, strings.TrimSpace(kv[0]))
				c.PSorts = append(c.PSorts, strings.TrimSpace(kv[1]))
			}
			if _, dup := cs.Contracts[c.Name]; dup {
				return errf("duplicate lemma %s", c.Name)
			}
			cs.Contracts[c.Name] = c
			cs.Order = append(cs.Order, c)
			cur = c
		case strings.HasPrefix(t, "spec "):
			m := specRe.FindStringSubmatch(t)
			if m == nil {
				return errf("bad spec: %s", t)
			}
			e, err := ParseExpr(m[3])
			if err != nil {
				return errf("spec %s: %v", m[1], err)
			}
			cs.Macros[m[1]] = &SpecMacro{Name: m[1], Params: splitList(m[2]), Body: e, Text: m[3]}
			cur = nil
		case strings.HasPrefix(t, "globalfact "):
			// globalfact <Name> <expr over Name>: the package-level variable never changes after init and satisfies expr
			fs := strings.SplitN(strings.TrimSpace(t[11:]), " ", 2)
			if len(fs) != 2 {
				return errf("bad globalfact: %s", t)
			}
			e, err := ParseExpr(fs[1])
			if err != nil {
				return errf("globalfact %s: %v", fs[0], err)
			}
			if cs.GlobalFacts == nil {
				cs.GlobalFacts = map[string][]Expr{}
			}
			cs.GlobalFacts[pkg+"."+fs[0]] = append(cs.GlobalFacts[pkg+"."+fs[0]], e)
			cur = nil
		case strings.HasPrefix(t, "fnfield ") || strings.HasPrefix(t, "actorchan ") || strings.HasPrefix(t, "guarded "):
			if err := cs.Decls.parse(t, pkg); err != nil {
				return errf("%v", err)
			}
			cur = nil
		case strings.HasPrefix(t, "propagate "): // authflow.go (w-c18)
			if err := parsePropagate(t); err != nil {
				return errf("%v", err)
			}
			cur = nil
		case strings.HasPrefix(t, "ghost "):
			kv := strings.SplitN(strings.TrimSpace(t[6:]), ":", 2)
			if len(kv) != 2 {
				return errf("bad ghost: %s", t)
			}
			cs.Ghosts = append(cs.Ghosts, newGhostVar(kv[0], kv[1])) // logghost.go (w-c09): `ghost log name: sort`
			cur = nil
		default:
			if cur == nil {
				return errf("clause outside a contract: %s", t)
			}
			switch {
			case strings.HasPrefix(t, "requires") || strings.HasPrefix(t, "ensures"):
				m := ensRe.FindStringSubmatch(t)
				if m == nil {
					return errf("bad clause: %s", t)
				}
				e, err := ParseExpr(m[4])
				if err != nil {
					return errf("%v in: %s", err, m[4])
				}
				cl := &Clause{Kind: m[1], Props: parseProps(m[2]), Label: m[3], Expr: e, Text: m[4], File: rc.file, Line: rc.line}
				if m[1] == "requires" {
					if cl.Label == "" {
						cl.Label = strconv.Itoa(len(cur.Requires))
					}
					cur.Requires = append(cur.Requires, cl)
				} else {
					if cl.Label == "" {
						cl.Label = strconv.Itoa(len(cur.Ensures))
					}
					cur.Ensures = append(cur.Ensures, cl)
				}
			case strings.HasPrefix(t, "loop"):
				m := loopRe.FindStringSubmatch(t)
				if m == nil {
					return errf("bad loop clause: %s", t)
				}
				k, _ := strconv.Atoi(m[1])
				e, err := ParseExpr(m[5])
				if err != nil {
					return errf("%v in: %s", err, m[5])
				}
				cl := &Clause{Kind: m[2], Loop: k, Props: parseProps(m[3]), Label: m[4], Expr: e, Text: m[5], File: rc.file, Line: rc.line}
				if m[2] == "ensures" {
					if cl.Label == "" {
						cl.Label = strconv.Itoa(len(cur.IterEns))
					}
					cur.IterEns = append(cur.IterEns, cl)
				} else if m[2] == "invariant" {
					if cl.Label == "" {
						n := 0
						for _, o := range cur.Invs {
							if o.Loop == k {
								n++
							}
						}
						cl.Label = strconv.Itoa(n)
					}
					cur.Invs = append(cur.Invs, cl)
				} else if m[2] == "step" {
					// loop k step lbl: <expr over header values x and back-edge values next_x>  (w-c12, loopstep.go)
					if cl.Label == "" {
						cl.Label = strconv.Itoa(len(cur.Steps))
					}
					cur.Steps = append(cur.Steps, cl)
				} else {
					cur.Decs = append(cur.Decs, cl)
				}
			case strings.HasPrefix(t, "assigns"):
				cur.Assigns = strings.TrimSpace(t[7:])
			case strings.HasPrefix(t, "modifies"):
				cur.Modifies = append(cur.Modifies, splitList(t[8:])...)
			case strings.HasPrefix(t, "tags"):
				cur.Tags = append(cur.Tags, splitList(t[4:])...)
			case strings.HasPrefix(t, "overflow"):
				cur.Overflow = true
			case strings.HasPrefix(t, "abstract"):
				cur.Abstract = append(cur.Abstract, splitList(t[8:])...)
			case strings.HasPrefix(t, "waive"):
				cur.Waive = append(cur.Waive, splitList(t[5:])...)
			case strings.HasPrefix(t, "fnparam"):
				fs := strings.Fields(t)
				if len(fs) < 3 {
					return errf("bad fnparam: %s", t)
				}
				cur.FnParams[fs[1]] = strings.Join(fs[2:], " ")
			case strings.HasPrefix(t, "pure"):
				cur.Pure = true
				if cur.Assigns == "" {
					cur.Assigns = "nothing"
				}
			case strings.HasPrefix(t, "trusted"):
				cur.Trusted = true
			case strings.HasPrefix(t, "returns"):
				cur.Results = splitList(strings.Trim(strings.TrimSpace(t[7:]), "()"))
			case strings.HasPrefix(t, "ghostexit"):
				ga, ok := parseGhostEntry(t)
				if !ok {
					return errf("bad ghostexit clause: %s", t)
				}
				cur.GhostExit = append(cur.GhostExit, ga)
			case strings.HasPrefix(t, "ghostentry"):
				ga, ok := parseGhostEntry(t)
				if !ok {
					return errf("bad ghostentry clause: %s", t)
				}
				cur.GhostEntry = append(cur.GhostEntry, ga)
			case strings.HasPrefix(t, "call "):
				// call r = (rel.String).Less(a, b)   -- lemma only: use the *contract* of a function
				m := callRe.FindStringSubmatch(t)
				if m == nil {
					return errf("bad call clause: %s", t)
				}
				ex, err := ParseExpr("f(" + m[3] + ")")
				if err != nil {
					return errf("%v in call arguments: %s", err, m[3])
				}
				cur.Calls = append(cur.Calls, CallClause{Var: m[1], Key: strings.TrimSpace(m[2]), Args: ex.(ECall).Args})
			default:
				return errf("unknown clause: %s", t)
			}
		}
	}
	return nil
}
