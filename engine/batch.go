package main

// Stage 0 of the discharge: all obligations of one function in ONE incremental z3 run.
//
// The obligations of a function share its script (each sees a prefix of it), so they can be checked
// by a single solver process: the script is asserted line by line and every obligation is wrapped in
// (push 1) (assert (not goal)) (check-sat) (pop 1) at its prefix position. Only `unsat` answers are
// accepted here; everything else falls through to the per-obligation portfolio (solve.go), so this
// stage can only make the check faster, never change a verdict from failed to proved wrongly: the
// queries are the same formulas.

import (
	"context"
	"fmt"
	"os"
	"os/exec"
	"path/filepath"
	"sort"
	"strings"
	"sync"
	"time"
)

func (e *Engine) batchDischarge(obls []*Obligation, outDir string, par int, perQueryMs int) {
	if os.Getenv("VERIF_NOBATCH") != "" {
		return
	}
	groups := map[*[]string][]*Obligation{}
	var order []*[]string
	for _, o := range obls {
		if o.Script == nil || o.Goal == "true" || o.Guard == "false" {
			continue
		}
		if _, ok := groups[o.Script]; !ok {
			order = append(order, o.Script)
		}
		groups[o.Script] = append(groups[o.Script], o)
	}
	os.MkdirAll(outDir, 0o755)
	sem := make(chan struct{}, par)
	var wg sync.WaitGroup
	for gi, sp := range order {
		g := groups[sp]
		wg.Add(1)
		sem <- struct{}{}
		go func(gi int, script *[]string, g []*Obligation) {
			defer wg.Done()
			defer func() { <-sem }()
			sort.SliceStable(g, func(i, j int) bool { return g[i].Prefix < g[j].Prefix })
			var all strings.Builder
			for _, l := range *script {
				all.WriteString(l + "\n")
			}
			for _, o := range g {
				for _, l := range o.Extra {
					all.WriteString(l + "\n")
				}
				all.WriteString(o.Guard + "\n" + o.Goal + "\n")
			}
			var sb strings.Builder
			fmt.Fprintf(&sb, "; batch of %d obligations of %s\n(set-option :timeout %d)\n(set-logic ALL)\n", len(g), g[0].Func, perQueryMs)
			sb.WriteString(e.Prelude.Slice(all.String()))
			next := 0
			emit := func(upto int) {
				for next < len(g) && g[next].Prefix <= upto {
					o := g[next]
					sb.WriteString("(push 1)\n")
					for _, l := range o.Extra {
						sb.WriteString(l + "\n")
					}
					sb.WriteString("(assert (not " + sImp(o.Guard, o.Goal) + "))\n(check-sat)\n(pop 1)\n")
					next++
				}
			}
			for i, l := range *script {
				emit(i)
				sb.WriteString(l + "\n")
			}
			emit(len(*script))
			file := filepath.Join(outDir, fmt.Sprintf("batch%d_%s.smt2", gi, fileSafe.ReplaceAllString(g[0].Func, "_")))
			os.WriteFile(file, []byte(sb.String()), 0o644)
			budget := time.Duration(len(g)*perQueryMs+5000) * time.Millisecond
			ctx, cancel := context.WithTimeout(context.Background(), budget)
			defer cancel()
			t0 := time.Now()
			out, _ := exec.CommandContext(ctx, "z3-new", file).CombinedOutput()
			secs := time.Since(t0).Seconds()
			var answers []string
			for _, ln := range strings.Split(string(out), "\n") {
				ln = strings.TrimSpace(ln)
				if ln == "sat" || ln == "unsat" || ln == "unknown" || strings.HasPrefix(ln, "timeout") {
					answers = append(answers, ln)
				} else if strings.HasPrefix(ln, "(error") {
					// an error desynchronises the answer list: give up on this batch
					return
				}
			}
			if len(answers) != len(g) {
				// killed or truncated: trust only the answers we got in order
				if len(answers) > len(g) {
					return
				}
			}
			for i, a := range answers {
				if a == "unsat" {
					g[i].Status, g[i].Backend, g[i].Secs = "unsat", "z3-new/batch", secs/float64(len(g))
				}
			}
		}(gi, sp, g)
	}
	wg.Wait()
}
