package main

// Specification expression language: parser.

import (
	"fmt"
	"strings"
	"unicode"
)

type Expr interface{}

type (
	EInt    struct{ V string }
	EBool   struct{ V bool }
	ENil    struct{}
	EStr    struct{ V string }
	EIdent  struct{ Name string }
	EUnary  struct{ Op string; X Expr }
	EBinary struct{ Op string; L, R Expr }
	EField  struct{ X Expr; Name string }
	EIndex  struct{ X, I Expr }
	ESlice  struct{ X, Lo, Hi Expr }
	ECall   struct{ Fn string; Args []Expr }
	EQuant  struct {
		All    bool
		Var    string
		Lo, Hi Expr   // range form (Lo..Hi), Hi exclusive
		Sort   string // sort form
		Body   Expr
	}
	EOld   struct{ X Expr }
	EIs    struct{ X Expr; Type string } // x is pkg.Type
	EAs    struct{ X Expr; Type string } // x.(pkg.Type)
	ELet   struct{ Var string; Val, Body Expr }
	ECond  struct{ C, A, B Expr }
)

type tok struct {
	k string // int ident str op eof
	s string
}

type lexer struct {
	toks []tok
	pos  int
}

func lex(s string) ([]tok, error) {
	var out []tok
	i := 0
	for i < len(s) {
		c := s[i]
		switch {
		case c == ' ' || c == '\t':
			i++
		case unicode.IsDigit(rune(c)):
			j := i
			for j < len(s) && (unicode.IsDigit(rune(s[j])) || s[j] == 'x' || (s[j] >= 'a' && s[j] <= 'f') || (s[j] >= 'A' && s[j] <= 'F')) {
				j++
			}
			out = append(out, tok{"int", s[i:j]})
			i = j
		case c == '_' || c == '$' || unicode.IsLetter(rune(c)):
			j := i
			for j < len(s) && (s[j] == '_' || s[j] == '$' || unicode.IsLetter(rune(s[j])) || unicode.IsDigit(rune(s[j]))) {
				j++
			}
			out = append(out, tok{"ident", s[i:j]})
			i = j
		case c == '"':
			j := i + 1
			for j < len(s) && s[j] != '"' {
				if s[j] == '\\' {
					j++
				}
				j++
			}
			if j >= len(s) {
				return nil, fmt.Errorf("unterminated string")
			}
			out = append(out, tok{"str", s[i+1 : j]})
			i = j + 1
		case c == '\'':
			// char literal 'a' or '\\'
			j := i + 1
			if j < len(s) && s[j] == '\\' {
				j++
			}
			j++
			if j >= len(s) || s[j] != '\'' {
				return nil, fmt.Errorf("bad char literal")
			}
			body := s[i+1 : j]
			var r rune
			if body[0] == '\\' {
				switch body[1] {
				case 'n':
					r = '\n'
				case 't':
					r = '\t'
				case 'r':
					r = '\r'
				case '\\':
					r = '\\'
				case '\'':
					r = '\''
				case '0':
					r = 0
				default:
					r = rune(body[1])
				}
			} else {
				r = []rune(body)[0]
			}
			out = append(out, tok{"int", fmt.Sprint(int(r))})
			i = j + 1
		default:
			ops := []string{"<==>", "==>", "::", "..", "&&", "||", "==", "!=", "<=", ">=", "(", ")", "[", "]", "<", ">", "+", "-", "*", "/", "%", "!", ",", ".", ":", "?"}
			matched := false
			for _, op := range ops {
				if strings.HasPrefix(s[i:], op) {
					out = append(out, tok{"op", op})
					i += len(op)
					matched = true
					break
				}
			}
			if !matched {
				return nil, fmt.Errorf("unexpected character %q", c)
			}
		}
	}
	out = append(out, tok{"eof", ""})
	return out, nil
}

func ParseExpr(s string) (e Expr, err error) {
	toks, err := lex(s)
	if err != nil {
		return nil, err
	}
	l := &lexer{toks: toks}
	defer func() {
		if r := recover(); r != nil {
			if pe, ok := r.(parseErr); ok {
				err = fmt.Errorf("%s", string(pe))
				return
			}
			panic(r)
		}
	}()
	e = l.parseImp()
	if l.peek().k != "eof" {
		return nil, fmt.Errorf("unexpected %q", l.peek().s)
	}
	return e, nil
}

type parseErr string

func (l *lexer) peek() tok { return l.toks[l.pos] }
func (l *lexer) next() tok { t := l.toks[l.pos]; l.pos++; return t }
func (l *lexer) isOp(s string) bool {
	t := l.peek()
	return t.k == "op" && t.s == s
}
func (l *lexer) expect(s string) {
	if !l.isOp(s) {
		panic(parseErr(fmt.Sprintf("expected %q, got %q", s, l.peek().s)))
	}
	l.pos++
}

func (l *lexer) parseImp() Expr {
	lhs := l.parseOr()
	if l.isOp("==>") {
		l.next()
		rhs := l.parseImp()
		return EBinary{"==>", lhs, rhs}
	}
	if l.isOp("<==>") {
		l.next()
		rhs := l.parseImp()
		return EBinary{"<==>", lhs, rhs}
	}
	if l.isOp("?") {
		l.next()
		a := l.parseImp()
		l.expect(":")
		b := l.parseImp()
		return ECond{lhs, a, b}
	}
	return lhs
}

func (l *lexer) parseOr() Expr {
	e := l.parseAnd()
	for l.isOp("||") {
		l.next()
		e = EBinary{"||", e, l.parseAnd()}
	}
	return e
}

func (l *lexer) parseAnd() Expr {
	e := l.parseCmp()
	for l.isOp("&&") {
		l.next()
		e = EBinary{"&&", e, l.parseCmp()}
	}
	return e
}

func (l *lexer) parseCmp() Expr {
	e := l.parseAdd()
	for {
		t := l.peek()
		if t.k == "op" && (t.s == "==" || t.s == "!=" || t.s == "<" || t.s == "<=" || t.s == ">" || t.s == ">=") {
			l.next()
			e = EBinary{t.s, e, l.parseAdd()}
			continue
		}
		if t.k == "ident" && t.s == "is" {
			l.next()
			e = EIs{e, l.parseTypeName()}
			continue
		}
		return e
	}
}

func (l *lexer) parseTypeName() string {
	var sb strings.Builder
	if l.isOp("*") {
		l.next()
		sb.WriteString("*")
	}
	t := l.next()
	if t.k != "ident" {
		panic(parseErr("expected type name"))
	}
	sb.WriteString(t.s)
	for l.isOp(".") {
		l.next()
		t = l.next()
		sb.WriteString("." + t.s)
	}
	return sb.String()
}

func (l *lexer) parseAdd() Expr {
	e := l.parseMul()
	for l.isOp("+") || l.isOp("-") {
		op := l.next().s
		e = EBinary{op, e, l.parseMul()}
	}
	return e
}

func (l *lexer) parseMul() Expr {
	e := l.parseUnary()
	for l.isOp("*") || l.isOp("/") || l.isOp("%") {
		op := l.next().s
		e = EBinary{op, e, l.parseUnary()}
	}
	return e
}

func (l *lexer) parseUnary() Expr {
	if l.isOp("!") {
		l.next()
		return EUnary{"!", l.parseUnary()}
	}
	if l.isOp("-") {
		l.next()
		return EUnary{"-", l.parseUnary()}
	}
	return l.parsePostfix()
}

func (l *lexer) parsePostfix() Expr {
	e := l.parsePrimary()
	for {
		switch {
		case l.isOp("."):
			l.next()
			if l.isOp("(") {
				l.next()
				tn := l.parseTypeName()
				l.expect(")")
				e = EAs{e, tn}
				continue
			}
			t := l.next()
			if t.k != "ident" && t.k != "int" {
				panic(parseErr("expected field name"))
			}
			e = EField{e, t.s}
		case l.isOp("["):
			l.next()
			var lo Expr
			if !l.isOp(":") {
				lo = l.parseImp()
			}
			if l.isOp(":") {
				l.next()
				var hi Expr
				if !l.isOp("]") {
					hi = l.parseImp()
				}
				l.expect("]")
				e = ESlice{e, lo, hi}
			} else {
				l.expect("]")
				e = EIndex{e, lo}
			}
		default:
			return e
		}
	}
}

func (l *lexer) parsePrimary() Expr {
	t := l.next()
	switch t.k {
	case "int":
		return EInt{t.s}
	case "str":
		return EStr{t.s}
	case "ident":
		switch t.s {
		case "true":
			return EBool{true}
		case "false":
			return EBool{false}
		case "nil":
			return ENil{}
		case "forall", "exists":
			v := l.next()
			if v.k != "ident" {
				panic(parseErr("expected bound variable"))
			}
			q := EQuant{All: t.s == "forall", Var: v.s}
			if l.isOp(":") {
				l.next()
				q.Sort = l.next().s
			} else {
				in := l.next()
				if in.k != "ident" || in.s != "in" {
					panic(parseErr("expected 'in' or ':' after bound variable"))
				}
				q.Lo = l.parseAdd()
				l.expect("..")
				q.Hi = l.parseAdd()
			}
			l.expect("::")
			q.Body = l.parseImp()
			return q
		case "let":
			v := l.next()
			if !l.isOp("==") { // 'let x == e in body' not allowed; use '='-less form: let x : e in body
			}
			l.expect(":")
			val := l.parseOr()
			in := l.next()
			if in.s != "in" {
				panic(parseErr("expected 'in'"))
			}
			body := l.parseImp()
			return ELet{v.s, val, body}
		case "old":
			l.expect("(")
			x := l.parseImp()
			l.expect(")")
			return EOld{x}
		}
		if l.isOp("(") {
			l.next()
			var args []Expr
			for !l.isOp(")") {
				args = append(args, l.parseImp())
				if l.isOp(",") {
					l.next()
				}
			}
			l.expect(")")
			return ECall{t.s, args}
		}
		return EIdent{t.s}
	case "op":
		if t.s == "(" {
			e := l.parseImp()
			l.expect(")")
			return e
		}
	}
	panic(parseErr(fmt.Sprintf("unexpected token %q", t.s)))
}
