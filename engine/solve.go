package main

import (
	"context"
	"fmt"
	"os"
	"strconv"
	"os/exec"
	"path/filepath"
	"regexp"
	"strings"
	"sync"
	"time"
)

var fileSafe = regexp.MustCompile(`[^A-Za-z0-9_.@#-]`)

func (o *Obligation) fileName() string {
	return fileSafe.ReplaceAllString(o.Name, "_") + ".smt2"
}

func (e *Engine) queryText(o *Obligation, withModel bool) string {
	var body strings.Builder
	for _, l := range (*o.Script)[:o.Prefix] {
		body.WriteString(l)
		body.WriteString("\n")
	}
	for _, l := range o.Extra {
		body.WriteString(l)
		body.WriteString("\n")
	}
	body.WriteString("(assert (not " + sImp(o.Guard, o.Goal) + "))\n")
	b := body.String()
	var sb strings.Builder
	sb.WriteString("; obligation " + o.Name + "\n; kind " + o.Kind + "  at " + o.Pos + "\n")
	if o.Text != "" {
		sb.WriteString("; clause: " + strings.ReplaceAll(o.Text, "\n", " ") + "\n")
	}
	if withModel {
		sb.WriteString("(set-option :produce-models true)\n")
	}
	sb.WriteString("(set-logic ALL)\n")
	sb.WriteString(e.Prelude.Slice(b))
	sb.WriteString(b)
	sb.WriteString("(check-sat)\n")
	if withModel && len(o.ModelQ) > 0 {
		sb.WriteString("(get-value (" + strings.Join(o.ModelQ, " ") + "))\n")
	}
	return sb.String()
}

type solverSpec struct {
	name string
	args func(file string, secs int) []string
}

var solvers = []solverSpec{
	{"z3-new", func(f string, s int) []string { return []string{"z3-new", fmt.Sprintf("-T:%d", s), f} }},
	{"z3", func(f string, s int) []string { return []string{"z3", fmt.Sprintf("-T:%d", s), f} }},
	{"cvc5", func(f string, s int) []string {
		return []string{"cvc5", fmt.Sprintf("--tlimit=%d", s*1000), "--incremental", f}
	}},
}

type solveResult struct {
	status string
	out    string
	secs   float64
	solver string
}

func runSolver(ctx context.Context, sp solverSpec, file string, secs int) solveResult {
	t0 := time.Now()
	cctx, cancel := context.WithTimeout(ctx, time.Duration(secs+2)*time.Second)
	defer cancel()
	a := sp.args(file, secs)
	cmd := exec.CommandContext(cctx, a[0], a[1:]...)
	out, _ := cmd.CombinedOutput()
	s := strings.TrimSpace(string(out))
	first := s
	if i := strings.Index(s, "\n"); i >= 0 {
		first = s[:i]
	}
	st := "error"
	switch {
	case first == "unsat":
		st = "unsat"
	case first == "sat":
		st = "sat"
	case first == "unknown":
		st = "unknown"
	case strings.Contains(first, "timeout") || cctx.Err() != nil:
		st = "timeout"
	}
	return solveResult{st, s, time.Since(t0).Seconds(), sp.name}
}

// Discharge runs the portfolio on every obligation (in parallel) and fills in Status/Backend/Secs.
func (e *Engine) Discharge(obls []*Obligation, outDir string, timeout int, par int, allAgree bool) {
	os.MkdirAll(outDir, 0o755)
	if !allAgree && timeout > 2 {
		e.batchDischarge(obls, filepath.Join(outDir, "batch"), par, 1500) // stage 0 (batch.go)
	}
	sem := make(chan struct{}, par)
	var wg sync.WaitGroup
	for _, o := range obls {
		if o.Goal == "true" || o.Guard == "false" {
			o.Status, o.Backend = "unsat", "trivial"
			continue
		}
		if o.Status == "unsat" {
			continue // proved in the batch stage
		}
		wg.Add(1)
		sem <- struct{}{}
		go func(o *Obligation) {
			defer wg.Done()
			defer func() { <-sem }()
			file := filepath.Join(outDir, o.fileName())
			txt := e.queryText(o, false)
			if len(txt) > maxQueryBytes() { // default 1000000; VERIF_MAXQ overrides (w-c05)
				o.Status, o.Output = "toolarge", fmt.Sprintf("%d bytes of SMT-LIB", len(txt))
				return
			}
			os.WriteFile(file, []byte(txt), 0o644)
			// stage 1: z3-new alone, short
			r := runSolver(context.Background(), solvers[0], file, min(3, timeout))
			if r.status == "unsat" && !allAgree {
				o.Status, o.Backend, o.Secs, o.Output = "unsat", r.solver, r.secs, ""
				return
			}
			// stage 2: race all
			ctx, cancel := context.WithCancel(context.Background())
			defer cancel()
			ch := make(chan solveResult, len(solvers))
			for _, sp := range solvers {
				go func(sp solverSpec) { ch <- runSolver(ctx, sp, file, timeout) }(sp)
			}
			var results []solveResult
			for range solvers {
				rr := <-ch
				results = append(results, rr)
				if rr.status == "unsat" && !allAgree {
					o.Status, o.Backend, o.Secs = "unsat", rr.solver, rr.secs
					return
				}
			}
			// stage 3 (slice.go): the same obligation with the assumptions irrelevant for the goal dropped
			// (sound: fewer assumptions); only when the full query was not proved
			if !allAgree && timeout > 2 {
				if rr, ok := e.trySliced(o, outDir, timeout); ok {
					o.Status, o.Backend, o.Secs = "unsat", rr.solver+"/sliced", rr.secs
					return
				}
			}
			// stage 4 (split.go): case split on the disjuncts of the reachability guard
			if !allAgree && timeout > 2 {
				if secs, ok := e.trySplit(o, outDir, timeout); ok {
					o.Status, o.Backend, o.Secs = "unsat", "portfolio/by-cases", secs
					return
				}
			}
			// none proved it (or all must agree)
			nUnsat := 0
			var sat *solveResult
			var sb strings.Builder
			total := 0.0
			for i := range results {
				rr := results[i]
				total += rr.secs
				if rr.status == "unsat" {
					nUnsat++
					o.Backend = rr.solver
				}
				if rr.status == "sat" && sat == nil {
					sat = &results[i]
				}
				fmt.Fprintf(&sb, "[%s %.2fs] %s\n", rr.solver, rr.secs, truncate(rr.out, 400))
			}
			o.Secs = total
			o.Output = sb.String()
			switch {
			case allAgree && nUnsat == len(results):
				o.Status, o.Backend = "unsat", "z3-new+z3+cvc5"
			case allAgree && nUnsat > 0 && sat == nil:
				o.Status = "unsat" // proved by some, others undecided
			case sat != nil && nUnsat > 0:
				o.Status = "disagree"
			case sat != nil:
				o.Status, o.Backend = "sat", sat.solver
			default:
				o.Status = "unknown"
				for _, rr := range results {
					if rr.status == "timeout" {
						o.Status = "timeout"
					}
				}
			}
		}(o)
	}
	wg.Wait()
}

// Model asks a solver for values of the obligation's model terms (only meaningful after sat/unknown).
func (e *Engine) Model(o *Obligation, outDir string, terms []string, timeout int) (map[string]string, string) {
	saved := o.ModelQ
	o.ModelQ = terms
	defer func() { o.ModelQ = saved }()
	file := filepath.Join(outDir, strings.TrimSuffix(o.fileName(), ".smt2")+".model.smt2")
	os.WriteFile(file, []byte(e.queryText(o, true)), 0o644)
	for _, sp := range []solverSpec{solvers[1], solvers[0]} {
		r := runSolver(context.Background(), sp, file, timeout)
		if r.status == "sat" || r.status == "unknown" {
			m := parseGetValue(r.out)
			if len(m) > 0 {
				return m, r.status + " by " + sp.name
			}
		}
	}
	return nil, ""
}

// parseGetValue parses "((t1 v1) (t2 v2) ...)" from solver output.
func parseGetValue(out string) map[string]string {
	i := strings.Index(out, "((")
	if i < 0 {
		return nil
	}
	m := map[string]string{}
	for _, pair := range listElems(out[i:]) {
		el := listElems(pair)
		if len(el) == 2 {
			m[el[0]] = el[1]
		}
	}
	return m
}

// trySliced runs the portfolio on the relevance-sliced query of o (see slice.go).
func (e *Engine) trySliced(o *Obligation, outDir string, timeout int) (solveResult, bool) {
	goal := strings.Join(o.Extra, "\n") + "\n" + o.Guard + "\n" + o.Goal
	lines, dropped := sliceScript((*o.Script)[:o.Prefix], goal)
	if !dropped {
		return solveResult{}, false
	}
	var body strings.Builder
	for _, l := range lines {
		body.WriteString(l)
		body.WriteString("\n")
	}
	for _, l := range o.Extra {
		body.WriteString(l)
		body.WriteString("\n")
	}
	body.WriteString("(assert (not " + sImp(o.Guard, o.Goal) + "))\n")
	b := body.String()
	txt := "; obligation " + o.Name + " (relevance slice)\n(set-logic ALL)\n" + e.Prelude.Slice(b) + b + "(check-sat)\n"
	file := filepath.Join(outDir, strings.TrimSuffix(o.fileName(), ".smt2")+".sliced.smt2")
	os.WriteFile(file, []byte(txt), 0o644)
	ctx, cancel := context.WithCancel(context.Background())
	defer cancel()
	ch := make(chan solveResult, len(solvers))
	for _, sp := range solvers {
		go func(sp solverSpec) { ch <- runSolver(ctx, sp, file, timeout) }(sp)
	}
	for range solvers {
		if rr := <-ch; rr.status == "unsat" {
			return rr, true
		}
	}
	return solveResult{}, false
}

// maxQueryBytes: size limit of one SMT-LIB query (w-c05: made configurable, default unchanged).
func maxQueryBytes() int {
	if v, err := strconv.Atoi(os.Getenv("VERIF_MAXQ")); err == nil && v > 0 {
		return v
	}
	return 1000000 // was 600000: (*rel.SeqArrowExpr).Eval (18 returns) needs ~620 KB per postcondition query
}
