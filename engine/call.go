package main

import (
	"fmt"
	"go/token"
	"go/types"
	"strings"

	"golang.org/x/tools/go/ssa"
)

func (vc *VC) call(x ssa.Value, c *ssa.CallCommon, st *State, reach string) SV {
	var resT types.Type = c.Signature().Results()
	pos := c.Pos()
	// builtins
	if b, ok := c.Value.(*ssa.Builtin); ok {
		return vc.builtin(b, c, st, reach, x)
	}
	var args []SV
	var key string
	var callee *ssa.Function
	if c.IsInvoke() {
		key = vc.eng.instIfaceKey(c.Method, methodKey(c.Method)) // genkey.go (w-c01)
		recv := vc.val(c.Value)
		if s, ok := recv.(Sc); ok && s.S == "Val" {
			vc.safety("nil", reach, sNot(sEq(s.T, "nilVal")), pos)
		}
		args = append(args, recv)
	} else if f, ok := c.Value.(*ssa.Function); ok {
		callee = f
		key = funcKey(f)
	} else if mc, ok := c.Value.(*ssa.MakeClosure); ok {
		callee = mc.Fn.(*ssa.Function)
		key = funcKey(callee)
		vc.curBind = closureBindings(mc)
		defer func() { vc.curBind = nil }()
	} else {
		// call through a function value
		if r, ok := vc.fnFieldCall(c, st, reach, resT); ok { // effects.go
			return r
		}
		return vc.callFnValue(c, st, reach, resT)
	}
	vc.syncCall(callee, c, st, reach) // effects.go
	vc.authCallHook(key, callee, reach, pos) // authflow.go (w-c18)
	for _, a := range c.Args {
		args = append(args, vc.typedSV(vc.val(a), a.Type())) // w-c04: map-typed arguments usable with has()/m[k] in the callee's contract
	}
	con, key := vc.eng.genericContract(key) // genkey.go (w-c01): instances of generic functions use the generic contract
	n := vc.callN[key]
	vc.callN[key] = n + 1
	if con == nil {
		return vc.callUnknown(key, callee, c, args, st, reach, resT)
	}
	return vc.applyContract(con, key, n, args, st, reach, resT, pos)
}

func resultSV(vc *VC, prefix string, resT types.Type) (SV, []SV) {
	tup := resT.(*types.Tuple)
	var parts []SV
	for i := 0; i < tup.Len(); i++ {
		parts = append(parts, vc.freshSV(fmt.Sprintf("%s.r%d", prefix, i), tup.At(i).Type()))
	}
	switch len(parts) {
	case 0:
		return St{Typ: tup}, parts
	case 1:
		return parts[0], parts
	}
	return St{Typ: tup, F: parts}, parts
}

func shortKey(key string) string {
	key = strings.NewReplacer("(", "", ")", "", "*", "").Replace(key)
	return key
}

// applyContract: assert the callee's requires, havoc what its frame allows, assume its ensures.
func (vc *VC) applyContract(con *Contract, key string, n int, args []SV, st *State, reach string, resT types.Type, pos token.Pos) SV {
	if len(con.Params) == 1 && con.Params[0] == "*" { // w-c18: header `func f(*)` binds no parameter names
		con.Params = make([]string, len(args))
		for i := range args {
			con.Params[i] = fmt.Sprintf("p%d", i)
		}
	}
	if len(con.Params) != len(args) {
		panic(specErr(fmt.Sprintf("%s:%d: contract %s binds %d parameters, call passes %d", con.File, con.Line, key, len(con.Params), len(args))))
	}
	env := vc.newEnv(st, st, nil)
	env.local = false
	env.ownFn = false
	env.fvBind = vc.curBind
	vc.curBind = nil
	env.fvTerms = vc.curTerms // captproj.go (x-c17)
	vc.curTerms = nil
	env.pkg = con.Pkg
	for i, p := range con.Params {
		env.vars[p] = args[i]
	}
	for _, r := range con.Requires {
		if isCapturedClause(r) { // effects.go: established where the closure is created
			continue
		}
		vc.obligePre(key, n, r, reach, vc.evalBool(env, r.Expr), pos)
	}
	vc.recordCall(key, args, st) // effects.go
	pre := st.clone()
	assigns := con.Assigns
	if assigns == "" && con.Kind == "extern" {
		assigns = "fresh-only" // dependencies are assumed not to write memory that belongs to arr.ai values
	}
	switch assigns {
	case "nothing":
	case "fresh-only":
		a := vc.allocTerm(st)
		na := vc.fresh("alloc", "Int")
		vc.assume("true", app("<=", a, na))
		vc.set(st, "alloc", "Int", na)
	default:
		vc.havocAll(st)
		vc.eng.note("callee " + key + " has no assigns clause: all state havocked at its call sites")
	}
	for _, m := range con.Modifies {
		vc.havocMatching(st, m)
	}
	vc.havocLogGhosts(con, assigns, st) // logghost.go (w-c09)
	vc.recordCall(key, args, st)        // x-c17: re-record after the havoc (a callee without `assigns` wiped the lastcall ghosts)
	res, parts := resultSV(vc, "call."+shortKey(key), resT)
	tup := resT.(*types.Tuple)
	for i, p := range parts {
		vc.assumeType(reach, tup.At(i).Type(), p, st)
	}
	if con.Pure {
		// deterministic: the result is a function of the argument leaves
		var ls, sorts []string
		for i, a := range args {
			_ = i
			ls = append(ls, toLeaves(a)...)
		}
		ok := true
		for _, l := range ls {
			_ = l
		}
		if ok {
			var argSorts []string
			for _, a := range args {
				argSorts = append(argSorts, svSorts(a)...)
			}
			sorts = argSorts
			rl := toLeaves(res)
			rs := svSorts(res)
			for i := range rl {
				fn := fmt.Sprintf("uf.%s.%d", sanitize(key), i)
				vc.declareFun(fn, sorts, rs[i])
				t := fn
				if len(ls) > 0 {
					t = app(fn, ls...)
				}
				vc.assume(reach, sEq(rl[i], t))
			}
		}
	}
	penv := vc.newEnv(st, pre, nil)
	penv.local = false
	penv.ownFn = false
	penv.fvBind = env.fvBind
	penv.fvTerms = env.fvTerms
	penv.pkg = con.Pkg
	penv.oldVars = env.vars
	for k, v := range env.vars {
		penv.vars[k] = v
	}
	if len(parts) == 1 {
		penv.vars["result"] = parts[0]
		if tup, ok := resT.(*types.Tuple); ok && tup.Len() == 1 { // w-c04: map-typed results usable with has()/m[k]
			penv.vars["result"] = vc.typedSV(parts[0], tup.At(0).Type())
		}
	} else if len(parts) > 1 {
		penv.vars["result"] = res
	}
	for i, p := range parts {
		if tup, ok := resT.(*types.Tuple); ok && i < tup.Len() {
			p = vc.typedSV(p, tup.At(i).Type())
		}
		penv.vars[fmt.Sprintf("result.%d", i)] = p
		if i < len(con.Results) {
			penv.vars[con.Results[i]] = p
		}
	}
	for _, e := range con.Ensures {
		if penv.fvTerms != nil { // captproj.go (x-c17): a clause naming a captured variable that is not projectable is skipped
			if g, ok := vc.tryEvalBool(penv, e.Expr); ok {
				vc.assume(reach, g)
			} else {
				vc.eng.note("call of " + key + " through a struct field in " + vc.key + ": ensures clause `" + e.Text + "` not assumed (names a captured variable that is not known there)")
			}
			continue
		}
		vc.assume(reach, vc.evalBool(penv, e.Expr))
	}
	return res
}

func svSorts(v SV) []string {
	switch x := v.(type) {
	case Sc:
		return []string{x.S}
	case Sl:
		return []string{"Int", "Int", "Int", "Int"}
	case St:
		var out []string
		for _, f := range x.F {
			out = append(out, svSorts(f)...)
		}
		return out
	case Pt:
		return []string{"Int"}
	}
	return nil
}

func (vc *VC) obligePre(key string, n int, r *Clause, reach, goal string, pos token.Pos) {
	props := r.Props
	if len(props) == 0 && vc.con != nil {
		props = vc.con.Tags
	}
	vc.oblige("pre", fmt.Sprintf("pre@%s#%d.%s", key, n, r.Label), props, reach, goal, r.Text, pos)
	vc.assume(reach, goal)
}

func (vc *VC) havocMatching(st *State, m string) {
	vc.touchGhost(st, m)
	for k := range vc.svSort {
		if k == m || k == "G|"+m || strings.HasPrefix(k, m+"|") || strings.HasPrefix(k, "HF|"+sanitize(m)+"|") || strings.HasPrefix(k, "HS|"+sanitize(m)+"|") {
			vc.set(st, k, vc.svSort[k], vc.fresh(k, vc.svSort[k]))
		}
	}
}

// callUnknown: a callee without a contract.
func (vc *VC) callUnknown(key string, callee *ssa.Function, c *ssa.CallCommon, args []SV, st *State, reach string, resT types.Type) SV {
	external := callee != nil && (callee.Pkg == nil || !inRepo(callee.Pkg.Pkg))
	if c.IsInvoke() {
		external = c.Method.Pkg() == nil || !inRepo(c.Method.Pkg())
	}
	res, parts := resultSV(vc, "call."+shortKey(key), resT)
	if external {
		// assumed: a dependency writes only memory reachable from pointer / slice arguments
		wrote := false
		for i, a := range args {
			switch s := a.(type) {
			case Sl:
				for j, srt := range sortsOf(s.Elem) {
					if isReadOnlyExtern(key) {
						continue
					}
					name := hsName(s.Elem, j)
					h := vc.get(st, name, heapSort(srt))
					row := vc.fresh("row", rowSort(srt))
					vc.set(st, name, heapSort(srt), vc.define("H", heapSort(srt), app("store", h, s.Ref, row)))
					wrote = true
				}
			case Pt:
				if s.Kind == "heap" && !isReadOnlyExtern(key) {
					vc.havocMatching(st, typeName(s.Root))
					wrote = true
				}
				if s.Kind == "local" && !isReadOnlyExtern(key) {
					t := s.Elem
					_ = t
					if cell, ok := st.locals[s.Local]; ok {
						_, pt := cell, s
						nv := vc.freshSV("ext", pt.Elem)
						st.locals[s.Local] = setPath(cell, s.Path, nv)
						if vc.dry > 0 {
							vc.wlocal[s.Local] = true
						}
					}
				}
			}
			_ = i
		}
		_ = wrote
		vc.eng.note("dependency " + key + ": no contract; assumed to write only memory passed to it by pointer or slice, result unconstrained")
		a := vc.allocTerm(st)
		na := vc.fresh("alloc", "Int")
		vc.assume("true", app("<=", a, na))
		vc.set(st, "alloc", "Int", na)
	} else if callee != nil && writesNothing(callee) && vc.inlineLeaf(callee, args, st, reach, &res) {
		// tolerant.go: a write-free single-block helper without contract is executed in place
	} else if callee != nil && writesNothing(callee) {
		// tolerant.go: a repo function without contract whose body provably writes no memory (no store, map update, send,
		// go/defer, and only calls of read-only dependency functions) is treated as `assigns fresh-only` with an
		// unconstrained result instead of havocking all state. (A helper extracted from a function under contract — e.g.
		// a local closure building an error value — must not make the caller's proof collapse.)
		vc.eng.note("repo function " + key + " called from " + vc.key + " has no contract: body writes no memory (syntactic check), result unconstrained")
		a := vc.allocTerm(st)
		na := vc.fresh("alloc", "Int")
		vc.assume("true", app("<=", a, na))
		vc.set(st, "alloc", "Int", na)
	} else {
		vc.havocAll(st)
		vc.eng.note("repo function " + key + " called from " + vc.key + " has no contract: result unconstrained, all state havocked")
	}
	tup := resT.(*types.Tuple)
	for i, p := range parts {
		vc.assumeType(reach, tup.At(i).Type(), p, st)
	}
	return res
}

var readOnlyExterns = map[string]bool{
	"fmt.Errorf": true, "fmt.Sprintf": true, "fmt.Sprint": true, "errors.New": true, "errors.Errorf": true,
	"strings.HasPrefix": true, "strings.HasSuffix": true, "strings.Join": true, "strings.Contains": true,
	"bytes.Equal": true, "bytes.Contains": true, "bytes.HasPrefix": true, "bytes.HasSuffix": true, "bytes.Join": true,
	"bytes.Index": true, "bytes.Split": true, "bytes.Repeat": true, "bytes.ReplaceAll": true, "bytes.TrimPrefix": true, "bytes.TrimSuffix": true,
	"errors.WithStack": true, "errors.Wrap": true, "errors.Wrapf": true,
}

func isReadOnlyExtern(key string) bool { return readOnlyExterns[key] }

// callFnValue: call through a func-typed value (parameter, field, closure variable).
func (vc *VC) callFnValue(c *ssa.CallCommon, st *State, reach string, resT types.Type) SV {
	f := vc.val(c.Value).(Sc).T
	var args []SV
	for _, a := range c.Args {
		args = append(args, vc.val(a))
	}
	res, parts := resultSV(vc, "fcall", resT)
	mode := ""
	if p, ok := c.Value.(*ssa.Parameter); ok && vc.con != nil {
		for i, fp := range vc.fn.Params {
			if fp == p {
				mode = vc.con.FnParams[vc.con.Params[i]]
			}
		}
	}
	if mode == "" && vc.con != nil {
		mode = vc.con.FnParams["*"]
	}
	vc.safety("nilfn", reach, sNot(sEq(f, "nilFn")), c.Pos())
	if r, ok := vc.callFnIs(mode, f, args, st, reach, resT, c.Pos()); ok { // fnis.go
		return r
	}
	if mode == "" {
		if r, ok := vc.callFnPhi(c, f, st, reach, resT); ok { // fnphi.go (w-c04)
			return r
		}
	}
	if strings.HasPrefix(mode, "pure") {
		ls := []string{f}
		sorts := []string{"Fn"}
		for _, a := range args {
			ls = append(ls, toLeaves(a)...)
			sorts = append(sorts, svSorts(a)...)
		}
		rl := toLeaves(res)
		rs := svSorts(res)
		sig := sanitize(types.TypeString(c.Signature(), nil))
		for i := range rl {
			fn := fmt.Sprintf("apply.%s.%d", sig, i)
			vc.declareFun(fn, sorts, rs[i])
			vc.assume(reach, sEq(rl[i], app(fn, ls...)))
		}
		if strings.Contains(mode, "fresh-only") {
			a := vc.allocTerm(st)
			na := vc.fresh("alloc", "Int")
			vc.assume("true", app("<=", a, na))
			vc.set(st, "alloc", "Int", na)
		}
	} else if strings.HasPrefix(mode, "opaque") {
		// effects.go: client callback; result unconstrained, writes nothing that existed before the call
		a := vc.allocTerm(st)
		na := vc.fresh("alloc", "Int")
		vc.assume("true", app("<=", a, na))
		vc.set(st, "alloc", "Int", na)
		vc.eng.note("call through a function value in " + vc.key + ": fnparam opaque (assumed to write no memory that existed before the call and no ghost state)")
	} else {
		vc.havocAll(st)
		vc.eng.note("call through a function value in " + vc.key + " without fnparam contract: all state havocked")
	}
	tup := resT.(*types.Tuple)
	for i, p := range parts {
		vc.assumeType(reach, tup.At(i).Type(), p, st)
	}
	return res
}

// ---- builtins ---------------------------------------------------------------------------------

func (vc *VC) builtin(b *ssa.Builtin, c *ssa.CallCommon, st *State, reach string, x ssa.Value) SV {
	switch b.Name() {
	case "len":
		switch v := vc.val(c.Args[0]).(type) {
		case Sl:
			return Sc{"Int", v.Len}
		case Sc:
			if v.S == "Str" {
				return Sc{"Int", app("slen", v.T)}
			}
			if _, ok := c.Args[0].Type().Underlying().(*types.Map); ok {
				return Sc{"Int", vc.mapLen(c.Args[0].Type(), v.T, st)}
			}
		case Pt:
			if _, ok := c.Args[0].Type().Underlying().(*types.Map); ok {
				return Sc{"Int", vc.mapLen(c.Args[0].Type(), v.Ref, st)}
			}
		}
	case "cap":
		if v, ok := vc.val(c.Args[0]).(Sl); ok {
			return Sc{"Int", v.Cap}
		}
	case "append":
		return vc.appendB(c, st, reach)
	case "copy":
		return vc.copyB(c, st, reach)
	case "delete":
		vc.mapDelete(c, st, reach)
		return St{}
	case "ssa:wrapnilchk":
		return vc.val(c.Args[0])
	case "min", "max":
		a, bb := vc.val(c.Args[0]).(Sc), vc.val(c.Args[1]).(Sc)
		if a.S == "Int" && len(c.Args) == 2 {
			op := "<="
			if b.Name() == "max" {
				op = ">="
			}
			return Sc{"Int", sIte(app(op, a.T, bb.T), a.T, bb.T)}
		}
	case "close":
		vc.chanClose(c, st, reach)
		return St{}
	case "print", "println":
		return St{}
	}
	panic(unsupported("builtin " + b.Name()))
}

// staticLen: number of elements if the slice's length is a numeral.
func staticLen(s Sl) (int, bool) {
	n := 0
	if s.Len == "" {
		return 0, false
	}
	for _, c := range s.Len {
		if c < '0' || c > '9' {
			return 0, false
		}
		n = n*10 + int(c-'0')
		if n > 1<<20 {
			return 0, false
		}
	}
	return n, true
}

func (vc *VC) appendB(c *ssa.CallCommon, st *State, reach string) SV {
	dst := vc.val(c.Args[0]).(Sl)
	var src Sl
	srcIsStr := false
	switch s := vc.val(c.Args[1]).(type) {
	case Sl:
		src = s
	case Sc:
		if s.S == "Str" {
			srcIsStr = true
			src = Sl{Len: app("slen", s.T), Ref: s.T}
		} else {
			panic(unsupported("append of non-slice"))
		}
	}
	elem := dst.Elem
	n := src.Len
	newLen := vc.define("len", "Int", simplAdd(dst.Len, n))
	fits := vc.define("fits", "Bool", app("<=", newLen, dst.Cap))
	if n == "0" {
		return dst
	}
	fresh := vc.bumpAlloc(st)
	ncap := vc.fresh("cap", "Int")
	vc.assume("true", app("<=", newLen, ncap))
	k, static := staticLen(src)
	sorts := sortsOf(elem)
	for i, srt := range sorts {
		name := hsName(elem, i)
		h := vc.get(st, name, heapSort(srt))
		oldRow := app("select", h, dst.Ref)
		var inPlace, copied string
		if static && k <= 4 && !srcIsStr {
			inPlace = oldRow
			// fresh row: holds the old contents at [0,len) — described by a quantified fact below
			nr := vc.fresh("newrow", rowSort(srt))
			vc.nfresh++
			j := fmt.Sprintf("j!%d", vc.nfresh)
			vc.assume("true", fmt.Sprintf("(forall ((%s Int)) (! (=> (and (<= 0 %s) (< %s %s)) (= (select %s %s) (select %s (+ %s %s)))) :pattern ((select %s %s))))",
				j, j, j, dst.Len, nr, j, oldRow, dst.Off, j, nr, j))
			vc.segcopy(srt, nr, "0", oldRow, dst.Off, dst.Len)
			copied = nr
			for e := 0; e < k; e++ {
				v := toLeaves(vc.readElem(st, src, sInt(int64(e))))[i]
				inPlace = app("store", inPlace, app("+", dst.Off, dst.Len, sInt(int64(e))), v)
				copied = app("store", copied, app("+", dst.Len, sInt(int64(e))), v)
			}
		} else {
			// bulk: both rows described by quantified facts
			ip := vc.fresh("inplace", rowSort(srt))
			nr := vc.fresh("newrow", rowSort(srt))
			vc.nfresh++
			j := fmt.Sprintf("j!%d", vc.nfresh)
			var srcAt func(string) string
			if srcIsStr {
				srcAt = func(ix string) string { return app("sat", src.Ref, ix) }
			} else {
				sh := vc.get(st, name, heapSort(srt))
				srcRow := app("select", sh, src.Ref)
				srcAt = func(ix string) string { return app("select", srcRow, app("+", src.Off, ix)) }
			}
			// in place: cells [off+len, off+len+n) take src, others unchanged
			lo := app("+", dst.Off, dst.Len)
			vc.assume("true", fmt.Sprintf("(forall ((%s Int)) (! (= (select %s %s) (ite (and (<= %s %s) (< %s (+ %s %s))) %s (select %s %s))) :pattern ((select %s %s))))",
				j, ip, j, lo, j, j, lo, n, srcAt(app("-", j, lo)), oldRow, j, ip, j))
			vc.assume("true", fmt.Sprintf("(forall ((%s Int)) (! (=> (and (<= 0 %s) (< %s %s)) (= (select %s %s) (ite (< %s %s) (select %s (+ %s %s)) %s))) :pattern ((select %s %s))))",
				j, j, j, newLen, nr, j, j, dst.Len, oldRow, dst.Off, j, srcAt(app("-", j, dst.Len)), nr, j))
			vc.segcopy(srt, nr, "0", oldRow, dst.Off, dst.Len)
			if !srcIsStr {
				sh := vc.get(st, name, heapSort(srt))
				srcRow := app("select", sh, src.Ref)
				vc.segcopy(srt, ip, lo, srcRow, src.Off, n)
				vc.segcopy(srt, nr, dst.Len, srcRow, src.Off, n)
			}
			vc.segcopy(srt, ip, dst.Off, oldRow, dst.Off, dst.Len)
			inPlace, copied = ip, nr
		}
		nh := sIte(fits, app("store", h, dst.Ref, inPlace), app("store", h, fresh, copied))
		vc.set(st, name, heapSort(srt), vc.define("H", heapSort(srt), nh))
	}
	return Sl{Ref: vc.define("ref", "Int", sIte(fits, dst.Ref, fresh)), Off: vc.define("off", "Int", sIte(fits, dst.Off, "0")),
		Len: newLen, Cap: vc.define("cap", "Int", sIte(fits, dst.Cap, ncap)), Elem: elem}
}

func (vc *VC) copyB(c *ssa.CallCommon, st *State, reach string) SV {
	dst := vc.val(c.Args[0]).(Sl)
	var srcLen string
	var srcAt func(i int, srt string, ix string) string
	switch s := vc.val(c.Args[1]).(type) {
	case Sl:
		srcLen = s.Len
		srcAt = func(i int, srt string, ix string) string {
			h := vc.get(st, hsName(s.Elem, i), heapSort(srt))
			return app("select", app("select", h, s.Ref), app("+", s.Off, ix))
		}
	case Sc:
		srcLen = app("slen", s.T)
		srcAt = func(i int, srt string, ix string) string { return app("sat", s.T, ix) }
	}
	n := vc.define("ncopy", "Int", sIte(app("<=", dst.Len, srcLen), dst.Len, srcLen))
	for i, srt := range sortsOf(dst.Elem) {
		name := hsName(dst.Elem, i)
		// source values are read from the heap before the copy (h), which is what Go's memmove semantics give
		h := vc.get(st, name, heapSort(srt))
		oldRow := app("select", h, dst.Ref)
		nr := vc.fresh("copied", rowSort(srt))
		vc.nfresh++
		j := fmt.Sprintf("j!%d", vc.nfresh)
		vc.assume("true", fmt.Sprintf("(forall ((%s Int)) (! (= (select %s %s) (ite (and (<= %s %s) (< %s (+ %s %s))) %s (select %s %s))) :pattern ((select %s %s))))",
			j, nr, j, dst.Off, j, j, dst.Off, n, srcAt(i, srt, app("-", j, dst.Off)), oldRow, j, nr, j))
		if s, ok := vc.val(c.Args[1]).(Sl); ok {
			sh := vc.get(st, hsName(s.Elem, i), heapSort(srt))
			vc.segcopy(srt, nr, dst.Off, app("select", sh, s.Ref), s.Off, n)
			switch srt {
			case "Int":
				vc.assume("true", app("patch", nr, oldRow, dst.Off, app("select", sh, s.Ref), s.Off, n))
			case "Val":
				vc.assume("true", app("patchV", nr, oldRow, dst.Off, app("select", sh, s.Ref), s.Off, n))
			}
		}
		vc.set(st, name, heapSort(srt), vc.define("H", heapSort(srt), app("store", h, dst.Ref, nr)))
	}
	return Sc{"Int", n}
}

// segcopy records that dst[dOff, dOff+n) is a copy of src[sOff, sOff+n) (prelude predicate, used by counting lemmas).
func (vc *VC) segcopy(sort, dst, dOff, src, sOff, n string) {
	switch sort {
	case "Int":
		vc.assume("true", app("segcopy", dst, dOff, src, sOff, n))
	case "Val":
		vc.assume("true", app("segcopyV", dst, dOff, src, sOff, n))
	}
}
