package main

// What a sync.Once establishes (worker x-c17, properties C11 / C18).
//
//   //@ guarded syntax.stdSafeScopeVar by stdSafeScopeOnce          (effects.go)
//   //@ func SafeStdScope$1()
//   //@   ensures[C18] once_lib: shas(sc(stdSafeScopeVar), "//")     <- label starts with `once`
//
// A postcondition of a function literal whose label starts with `once` is an INVARIANT ESTABLISHED BY THE ONCE the
// literal is handed to: it is proved in the literal's own unit like every postcondition (post.once_…@rK), and a
// caller may assume it as soon as `<Once>.Do(literal)` has returned. Why that is sound: Do returns only after the
// (single) run of the function registered with this Once has completed (sync.Once happens-before), the clause
// held when that run returned, and none of the variables it speaks about has been written since. The last two
// points are checked syntactically over ALL functions of the repository when the clause is first used
// (onceDiscipline; violation = specErr):
//   * the Once is a package-level variable and every call `<Once>.Do(x)` in the repository passes this very literal;
//   * the clause names no package-level variable other than variables declared `guarded … by <this Once>`;
//   * every Store to one of those variables is an instruction of that literal (so: inside the Do).
// At the Do call the variables guarded by the Once are havocked first (the literal may just have written them).
//
// Specifications may name package-level variables that are declared `guarded` (only those): the name denotes the
// variable's current content (the content at entry inside old(...)).
//
//   settled(<guarded package-level variable>)
//        the content the variable has once the function registered with its Once has completed. Under the
//        discipline above (one literal per Once, every store inside it, no address escapes) this content never
//        changes again, so it is a RIGID value (the same in every state): `oncefinal.<pkg>.<var>`. When
//        `<Once>.Do(lit)` returns, the variables guarded by that Once hold their settled values (if the
//        discipline does not hold they are havocked to fresh values instead and settled() is rejected).

import (
	"fmt"
	"go/types"
	"regexp"
	"sort"
	"strings"

	"golang.org/x/tools/go/ssa"
)

func isOnceClause(c *Clause) bool { return strings.HasPrefix(c.Label, "once") }

// guardedGlobal: the package-level variable `name` of package pkg if it is declared guarded.
func (e *Engine) guardedGlobal(pkg, name string) (*ssa.Global, string) {
	g, ok := e.CS.Decls.Guarded[pkg+"."+name]
	if !ok {
		return nil, ""
	}
	sp := e.Pkgs[pkg]
	if sp == nil {
		return nil, ""
	}
	gl, ok := sp.Members[name].(*ssa.Global)
	if !ok {
		return nil, ""
	}
	return gl, g
}

// guardedGlobalIdent: current content of a guarded package-level variable named in a specification.
func (e *Env) guardedGlobalIdent(name string) SV {
	vc := e.vc
	if len(vc.eng.CS.Decls.Guarded) == 0 || e.pkg == "" {
		return nil
	}
	gl, _ := vc.eng.guardedGlobal(e.pkg, name)
	if gl == nil {
		return nil
	}
	cell, ok := e.st.locals[gl]
	if !ok {
		cell = vc.globalInit(gl, e.st)
		e.st.locals[gl] = cell
	}
	return cell
}

// onceClauseNames: the clause names no guarded package-level variable of another guard.
func (e *Engine) onceClauseNames(once *ssa.Global, clause *Clause) error {
	pkg := pkgKey(once.Pkg.Pkg)
	var other []string
	for k, g := range e.CS.Decls.Guarded {
		if !strings.HasPrefix(k, pkg+".") || strings.Count(k[len(pkg)+1:], ".") != 0 || g == once.Name() {
			continue
		}
		other = append(other, k[len(pkg)+1:])
	}
	sort.Strings(other)
	for _, n := range other {
		if regexp.MustCompile(`(^|[^A-Za-z0-9_.$])` + regexp.QuoteMeta(n) + `($|[^A-Za-z0-9_])`).MatchString(clause.Text) {
			return fmt.Errorf("clause %s names %s, which is not guarded by %s", clause.Label, n, once.Name())
		}
	}
	return nil
}

// onceDiscipline: structural part of the header's side conditions (cached per Once and literal).
func (e *Engine) onceDiscipline(once *ssa.Global, lit *ssa.Function) error {
	ck := once.String() + "|" + lit.String()
	if e.onceChecked == nil {
		e.onceChecked = map[string]error{}
	}
	if err, done := e.onceChecked[ck]; done {
		return err
	}
	err := e.onceDiscipline1(once, lit)
	e.onceChecked[ck] = err
	return err
}

func (e *Engine) onceDiscipline1(once *ssa.Global, lit *ssa.Function) error {
	pkg := pkgKey(once.Pkg.Pkg)
	onceName := once.Name()
	mine := map[*ssa.Global]bool{}
	for k, g := range e.CS.Decls.Guarded {
		if !strings.HasPrefix(k, pkg+".") || strings.Count(k[len(pkg)+1:], ".") != 0 || g != onceName {
			continue
		}
		if gl, _ := e.guardedGlobal(pkg, k[len(pkg)+1:]); gl != nil {
			mine[gl] = true
		}
	}
	var keys []string
	for k := range e.Funcs {
		keys = append(keys, k)
	}
	sort.Strings(keys)
	for _, fk := range keys {
		fn := e.Funcs[fk]
		for _, b := range fn.Blocks {
			for _, in := range b.Instrs {
				switch x := in.(type) {
				case *ssa.Store:
					if gl, ok := x.Addr.(*ssa.Global); ok && mine[gl] && fn != lit {
						return fmt.Errorf("%s stores to %s outside the literal registered with %s", fk, gl.Name(), onceName)
					}
				case ssa.CallInstruction:
					c := x.Common()
					cf, ok := c.Value.(*ssa.Function)
					if !ok || cf.String() != "(*sync.Once).Do" || len(c.Args) != 2 || c.Args[0] != ssa.Value(once) {
						continue
					}
					var passed *ssa.Function
					switch a := c.Args[1].(type) {
					case *ssa.MakeClosure:
						passed, _ = a.Fn.(*ssa.Function)
					case *ssa.Function:
						passed = a
					}
					if passed != lit {
						return fmt.Errorf("%s calls %s.Do with a function other than %s", fk, onceName, lit.Name())
					}
				}
			}
		}
	}
	// no address of a guarded variable may escape (it is only loaded from / stored to)
	for _, fk := range keys {
		for _, b := range e.Funcs[fk].Blocks {
			for _, in := range b.Instrs {
				var rands [12]*ssa.Value
				for _, op := range in.Operands(rands[:0]) {
					gl, ok := (*op).(*ssa.Global)
					if !ok || !mine[gl] {
						continue
					}
					switch u := in.(type) {
					case *ssa.DebugRef:
					case *ssa.UnOp:
					case *ssa.Store:
						if u.Val == ssa.Value(gl) {
							return fmt.Errorf("address of %s escapes in %s", gl.Name(), fk)
						}
					default:
						return fmt.Errorf("address of %s escapes in %s (%T)", gl.Name(), fk, in)
					}
				}
			}
		}
	}
	return nil
}

// onceEstablished: called after `<Once>.Do(lit)` returned (effects.go syncCall).
func (vc *VC) onceEstablished(c *ssa.CallCommon, st *State, reach string) {
	once, ok := c.Args[0].(*ssa.Global)
	if !ok {
		return
	}
	var lit *ssa.Function
	switch a := c.Args[1].(type) {
	case *ssa.MakeClosure:
		lit, _ = a.Fn.(*ssa.Function)
	case *ssa.Function:
		lit = a
	}
	if lit == nil {
		return
	}
	pkg := pkgKey(once.Pkg.Pkg)
	onceKey := pkg + "." + once.Name()
	// the literal may have written the variables guarded by this Once
	var names []string
	for k, g := range vc.eng.CS.Decls.Guarded {
		if g == once.Name() && strings.HasPrefix(k, pkg+".") && strings.Count(k[len(pkg)+1:], ".") == 0 {
			names = append(names, k[len(pkg)+1:])
		}
	}
	sort.Strings(names)
	disc := vc.eng.onceDiscipline(once, lit)
	for _, n := range names {
		gl, _ := vc.eng.guardedGlobal(pkg, n)
		if gl == nil {
			continue
		}
		elem := gl.Type().(*types.Pointer).Elem()
		var nv SV
		if disc == nil {
			nv = vc.settledValue(gl)
		} else {
			nv = vc.freshSV("once."+n, elem)
		}
		vc.assumeType(reach, elem, nv, st)
		st.locals[gl] = nv
		if vc.dry > 0 {
			vc.wlocal[gl] = true
		}
	}
	con := vc.eng.CS.Contracts[funcKey(lit)]
	if con == nil {
		return
	}
	for _, e := range con.Ensures {
		if !isOnceClause(e) {
			continue
		}
		err := disc
		if err == nil {
			err = vc.eng.onceClauseNames(once, e)
		}
		if err != nil {
			panic(specErr(fmt.Sprintf("%s: once-clause %s of %s cannot be assumed after %s.Do: %v", vc.key, e.Label, funcKey(lit), onceKey, err)))
		}
		env := vc.newEnv(st, st, nil)
		env.local = false
		env.ownFn = false
		env.pkg = con.Pkg
		vc.assume(reach, vc.evalBool(env, e.Expr))
		vc.eng.note("after " + onceKey + ".Do returned in " + vc.key + ": assumed `" + e.Text + "` (established by the literal registered with this Once; discipline checked over the whole repository)")
	}
}

// settledValue: the rigid value oncefinal.<pkg>.<var> (one SMT constant per leaf).
func (vc *VC) settledValue(gl *ssa.Global) SV {
	elem := gl.Type().(*types.Pointer).Elem()
	base := "oncefinal." + sanitize(pkgKey(gl.Pkg.Pkg)+"."+gl.Name())
	sorts := sortsOf(elem)
	ls := make([]string, len(sorts))
	for i, srt := range sorts {
		n := fmt.Sprintf("%s.%d", base, i)
		vc.declare(n, srt)
		ls[i] = n
	}
	return mkSV(elem, ls)
}

// onceLiteralOf: the unique function registered with the package-level Once (over all repo functions).
func (e *Engine) onceLiteralOf(once *ssa.Global) (*ssa.Function, error) {
	var lit *ssa.Function
	for _, fn := range e.Funcs {
		for _, b := range fn.Blocks {
			for _, in := range b.Instrs {
				ci, ok := in.(ssa.CallInstruction)
				if !ok {
					continue
				}
				c := ci.Common()
				cf, ok := c.Value.(*ssa.Function)
				if !ok || cf.String() != "(*sync.Once).Do" || len(c.Args) != 2 || c.Args[0] != ssa.Value(once) {
					continue
				}
				var passed *ssa.Function
				switch a := c.Args[1].(type) {
				case *ssa.MakeClosure:
					passed, _ = a.Fn.(*ssa.Function)
				case *ssa.Function:
					passed = a
				}
				if passed == nil || (lit != nil && passed != lit) {
					return nil, fmt.Errorf("%s.Do is called with more than one function (or a computed one)", once.Name())
				}
				lit = passed
			}
		}
	}
	if lit == nil {
		return nil, fmt.Errorf("no call of %s.Do found", once.Name())
	}
	return lit, nil
}

// settled(x)
func (e *Env) settledSpec(n ECall) SV {
	vc := e.vc
	id, ok := n.Args[0].(EIdent)
	if !ok || len(n.Args) != 1 {
		e.fail("settled() needs the name of a guarded package-level variable")
	}
	gl, guard := vc.eng.guardedGlobal(e.pkg, id.Name)
	if gl == nil {
		e.fail("settled(%s): not a package-level variable of %s declared `guarded`", id.Name, e.pkg)
	}
	once, ok := vc.eng.Pkgs[e.pkg].Members[guard].(*ssa.Global)
	if !ok {
		e.fail("settled(%s): guard %s is not a package-level sync.Once", id.Name, guard)
	}
	lit, err := vc.eng.onceLiteralOf(once)
	if err == nil {
		err = vc.eng.onceDiscipline(once, lit)
	}
	if err != nil {
		e.fail("settled(%s): %v", id.Name, err)
	}
	return vc.settledValue(gl)
}
