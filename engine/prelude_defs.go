package main

// Definitional axioms of the raw prelude.
//
// An axiom is normally included in a query only when every symbol it mentions is already needed
// by the query (Prelude.Slice). That is wrong for an axiom that DEFINES a declared function in
// terms of other vocabulary: `winV(..) = ... forall k :: eq(..)` must accompany every use of winV
// even if the query does not mention `eq` otherwise. Such an axiom opts in by naming itself
// `def.<sym>`:
//
//	(assert (! (forall (...) (! (= (winV ...) ...) :pattern (...))) :named def.winV))
//
// When <sym> becomes needed, all prelude symbols the axiom mentions become needed too, so the
// ordinary inclusion rule then selects it. Several axioms may define the same symbol
// (`def.winV`, `def.winV.2` — everything after the symbol's name up to the next '.' suffix is
// matched by longest declared-symbol prefix).

import (
	"regexp"
	"strings"
)

var defNameRe = regexp.MustCompile(`:named\s+def\.([^\s()]+)`)

// defUses returns the symbols mentioned by the definitional axioms of sym.
func (p *Prelude) defUses(sym string) []string {
	var out []string
	for _, it := range p.items {
		if it.decl != "" || !strings.Contains(it.text, ":named") {
			continue
		}
		m := defNameRe.FindStringSubmatch(it.text)
		if m == nil {
			continue
		}
		name := m[1]
		if name != sym && !strings.HasPrefix(name, sym+".") {
			continue
		}
		out = append(out, it.uses...)
	}
	return out
}
