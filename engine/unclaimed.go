package main

// /verif/unclaimed.json: obligations withdrawn from the claimed set, each with a reason. An obligation is
// withdrawn (never loosened) when it cannot be made to discharge reliably well under the quick timeout
// on the unchanged tree although no defect is known behind it (solver instability, a contract of another
// function that is not strong enough yet). Withdrawn obligations are not run and not counted; the evidence
// lists them under coverage.not_claimed, and those of kind pre@ / inv. are assumptions of the obligations
// that follow them. DESIGN.md §9 logs every entry.

import (
	"encoding/json"
	"os"
	"path/filepath"
	"regexp"
)

type unclaimedEntry struct {
	Obligation string `json:"obligation"` // exact name, or a regular expression when "regexp": true
	Regexp     bool   `json:"regexp,omitempty"`
	Reason     string `json:"reason"`
}

type unclaimedSet struct {
	exact map[string]string
	res   []*regexp.Regexp
	why   []string
}

func loadUnclaimed() map[string]string {
	out := map[string]string{}
	b, err := os.ReadFile(filepath.Join(verifDir, "unclaimed.json"))
	if err != nil {
		return out
	}
	var es []unclaimedEntry
	if json.Unmarshal(b, &es) != nil {
		return out
	}
	for _, e := range es {
		out[e.Obligation] = e.Reason
	}
	return out
}
