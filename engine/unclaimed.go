package main

// /verif/unclaimed.json: obligations withdrawn from the claimed set, each with a reason. An obligation is
// withdrawn (never loosened) when it cannot be made to discharge reliably well under the quick timeout
// on the unchanged tree although no defect is known behind it (solver instability, a contract of another
// function that is not strong enough yet). Withdrawn obligations are not run and not counted; the evidence
// lists them under coverage.not_claimed, and those of kind pre@ / inv. are assumptions of the obligations
// that follow them. DESIGN.md §11 lists the entries by function.

import (
	"encoding/json"
	"os"
	"path/filepath"
	"regexp"
)

type unclaimedEntry struct {
	Obligation string `json:"obligation"` // exact name, or a regular expression (anchored) when "regexp": true
	Regexp     bool   `json:"regexp,omitempty"`
	Reason     string `json:"reason"`
}

type unclaimedSet struct {
	exact map[string]string
	res   []*regexp.Regexp
	why   []string
}

func (u *unclaimedSet) match(name string) (string, bool) {
	if r, ok := u.exact[name]; ok {
		return r, true
	}
	for i, re := range u.res {
		if re.MatchString(name) {
			return u.why[i], true
		}
	}
	return "", false
}

func loadUnclaimed() *unclaimedSet {
	u := &unclaimedSet{exact: map[string]string{}}
	b, err := os.ReadFile(filepath.Join(verifDir, "unclaimed.json"))
	if err != nil {
		return u
	}
	var es []unclaimedEntry
	if json.Unmarshal(b, &es) != nil {
		return u
	}
	for _, e := range es {
		if e.Regexp {
			if re, err := regexp.Compile("^(?:" + e.Obligation + ")$"); err == nil {
				u.res = append(u.res, re)
				u.why = append(u.why, e.Reason)
			}
			continue
		}
		u.exact[e.Obligation] = e.Reason
	}
	return u
}
