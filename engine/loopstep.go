package main

// `loop k step [label:] <expr>` clauses (added by w-c12): a relation between two consecutive visits
// of the loop header, checked on every back edge. In <expr> a loop variable x (a phi of the header,
// by source name) denotes its value at the header visit that started the iteration and `next_x`
// its value at the next visit, i.e. after the whole body INCLUDING the for-statement's post
// statement. Heap/ghost state in <expr> is the state at the back edge. Obligation: step.k.label.

import (
	"fmt"
	"go/token"

	"golang.org/x/tools/go/ssa"
)

func (vc *VC) loopSteps(li *loopInfo, from, h *ssa.BasicBlock, newv map[*ssa.Phi]SV, cond string, st *State) {
	if vc.con == nil || len(vc.con.Steps) == 0 || vc.dry > 0 {
		return
	}
	suffix := ""
	if len(vc.backTo[h]) > 1 {
		suffix = fmt.Sprintf("@b%d", from.Index)
	}
	for _, c := range vc.con.Steps {
		if c.Loop != li.index {
			continue
		}
		env := vc.newEnv(st, vc.st0, h) // header phis still hold the header-visit values here
		for phi, v := range newv {
			nm := phi.Comment
			if nm == "" {
				continue
			}
			env.vars["next_"+nm] = v
		}
		vc.oblige("inv.step", fmt.Sprintf("step.%d.%s%s", li.index, c.Label, suffix), c.Props, cond, vc.evalBool(env, c.Expr), c.Text, token.NoPos)
	}
}
