package main

// `fnparam <p|*> is <funcKey>` (w-c19): a call through the function value is treated as a call of the named
// repo function's CONTRACT, under the obligation safe.fnis#n that the value IS that function
// (function identity is checked, not assumed). `fnval("<funcKey>")` in spec expressions denotes the
// function value of a named function, so that e.g. a table-returning helper can promise which functions
// its table holds.

import (
	"go/token"
	"go/types"
	"strings"
)

func fnConstName(key string) string { return "fn." + sanitize(key) }

// fnConst declares the constant of a named function; a named function's value is never nil.
func (vc *VC) fnConst(key string) string {
	name := fnConstName(key)
	if !vc.decl[name] {
		vc.declare(name, "Fn")
		vc.emit("(assert (not (= " + name + " nilFn)))")
	}
	return name
}

// `fnparam <p> contract <key>`: calls through the function-typed parameter are treated as calls of the
// CONTRACT <key> (usually an `extern` pseudo-function declared in a spec file): its requires become
// obligations of the calling function, its modifies/ensures are ASSUMED of every callback a client passes
// (a callback contract; no identity obligation). The real callbacks in the repo are verified against a
// contract with the same clauses.
//
// callFnIs returns (result, true) when mode is "is <key>" or "contract <key>".
func (vc *VC) callFnIs(mode, f string, args []SV, st *State, reach string, resT types.Type, pos token.Pos) (SV, bool) {
	if strings.HasPrefix(mode, "contract ") {
		key := strings.TrimSpace(mode[9:])
		con := vc.eng.CS.Contracts[key]
		if con == nil {
			panic(specErr("fnparam ... contract " + key + ": no such contract"))
		}
		vc.eng.note("callback contract " + key + " assumed for calls through a function parameter in " + vc.key)
		n := vc.callN[key]
		vc.callN[key] = n + 1
		return vc.applyContract(con, key, n, args, st, reach, resT, pos), true
	}
	if !strings.HasPrefix(mode, "is ") {
		return nil, false
	}
	key := strings.TrimSpace(mode[3:])
	con := vc.eng.CS.Contracts[key]
	if con == nil || vc.eng.Funcs[key] == nil {
		panic(specErr("fnparam ... is " + key + ": no such function under contract"))
	}
	name := vc.fnConst(key)
	vc.safety("fnis", reach, sEq(f, name), pos)
	n := vc.callN[key]
	vc.callN[key] = n + 1
	return vc.applyContract(con, key, n, args, st, reach, resT, pos), true
}

// fnvalSpec evaluates fnval("<funcKey>").
func (e *Env) fnvalSpec(n ECall) SV {
	if len(n.Args) != 1 {
		e.fail("fnval needs one string argument")
	}
	s, ok := n.Args[0].(EStr)
	if !ok {
		e.fail("fnval needs a string literal")
	}
	if e.vc.eng.Funcs[s.V] == nil {
		e.fail("fnval: unknown function %s", s.V)
	}
	return Sc{"Fn", e.vc.fnConst(s.V)}
}
