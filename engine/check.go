package main

import (
	"encoding/json"
	"fmt"
	"os"
	"path/filepath"
	"sort"
	"strconv"
	"strings"
	"time"
)

type Finding struct {
	Kind       string `json:"kind"` // finding | fixed
	Property   string `json:"property"`
	Obligation string `json:"obligation"`
	Region     string `json:"region,omitempty"` // spec expression over the function's parameters delimiting the failing inputs
	What       string `json:"what"`
	Witness    string `json:"witness,omitempty"`
	Commit     string `json:"commit,omitempty"`
	Line       string `json:"line,omitempty"` // for fixed entries: the literal "fixed: ..." record
}

type FindingsFile struct {
	Findings []Finding `json:"findings"`
}

func loadFindings() ([]Finding, error) {
	b, err := os.ReadFile(filepath.Join(verifDir, "known_findings.json"))
	if os.IsNotExist(err) {
		return nil, nil
	}
	if err != nil {
		return nil, err
	}
	var ff FindingsFile
	if err := json.Unmarshal(b, &ff); err != nil {
		return nil, fmt.Errorf("known_findings.json: %v", err)
	}
	return append(ff.Findings, extraFindings()...), nil // extraFindings: devfindings.go (w-c05), empty unless VERIF_FINDINGS_EXTRA is set
}

type propCfg struct {
	Pkgs []string
}

// which packages each property's contracts live in (all packages with contracts are loaded anyway;
// this only orders output).

type oblRecord struct {
	Name    string  `json:"name"`
	Kind    string  `json:"kind"`
	Backend string  `json:"backend"`
	SolverS float64 `json:"solver_s"`
	Pos     string  `json:"pos,omitempty"`
}

func cmdCheck(args []string) int {
	if len(args) < 1 {
		fmt.Fprintln(os.Stderr, "usage: govc check <Cxx> [quick|thorough]")
		return 2
	}
	prop := args[0]
	tier := "quick"
	if len(args) > 1 {
		tier = args[1]
	}
	if t := os.Getenv("VERIF_TIER"); t != "" && len(args) < 2 {
		tier = t
	}
	seed, _ := strconv.Atoi(os.Getenv("VERIF_SEED"))
	t0 := time.Now()
	findings, err := loadFindings()
	if err != nil {
		fmt.Fprintln(os.Stderr, err)
		return 2
	}
	e, err := Load(repoDir, verifDir, contractPackages())
	if err != nil {
		fmt.Fprintln(os.Stderr, "govc: cannot load /repo:", err)
		return 2
	}
	e.Findings = findings
	timeout := 30 // quick: per-solver budget in seconds; everything claimed discharges in under half of it on the unchanged tree
	if tier == "thorough" {
		timeout = 60
	}
	outDir := filepath.Join(verifDir, "out", prop)
	if s := os.Getenv("VERIF_SCRATCH"); s != "" {
		outDir = filepath.Join(verifDir, "out", s, prop)
	}
	os.RemoveAll(outDir)
	os.MkdirAll(outDir, 0o755)

	var obls, covers []*Obligation
	var funcs []string
	genErr := 0
	for _, con := range e.CS.Order {
		if con.Trusted && con.Kind != "func" {
			continue
		}
		if !contractServes(con, prop) {
			continue
		}
		switch con.Kind {
		case "func":
			if con.Trusted {
				continue
			}
			vc, err := e.GenFunc(con.Name, con)
			if err != nil {
				// The contract no longer fits the code (function gone, a local named in an invariant gone, arity
				// changed): the function is NOT proved. That fails loudly as an obligation of its own instead of
				// passing silently or aborting the whole check.
				fmt.Fprintln(os.Stderr, "govc: contract does not apply to the current code:", err)
				script := []string{}
				obls = append(obls, &Obligation{Name: con.Name + "/contract.unresolved", Kind: "unresolved", Func: con.Name,
					Props: []string{prop}, Guard: "true", Goal: "false", Status: "error", Script: &script,
					Text: "the contract could not be applied to the current source: " + err.Error()})
				funcs = append(funcs, con.Name)
				continue
			}
			funcs = append(funcs, con.Name)
			for _, o := range vc.obls {
				o.Script = &vc.script
				if o.Kind == "cover" {
					covers = append(covers, o)
					continue
				}
				if hasProp(o.Props, prop) {
					obls = append(obls, o)
				}
			}
		case "lemma":
			os2, err := e.GenLemma(con)
			if err != nil {
				fmt.Fprintln(os.Stderr, "govc: lemma error:", err)
				genErr++
				continue
			}
			funcs = append(funcs, con.Name)
			for _, o := range os2 {
				if hasProp(o.Props, prop) {
					obls = append(obls, o)
				}
			}
		}
	}
	if genErr > 0 {
		fmt.Fprintf(os.Stderr, "govc: %d contracts could not be processed (engine/contract fault, not a verdict)\n", genErr)
		return 2
	}
	if len(obls) == 0 {
		fmt.Fprintf(os.Stderr, "govc: property %s generated no obligations (vacuity guard)\n", prop)
		return 2
	}
	par := parallelism(12)
	// obligations listed as known findings are expected to fail: give them a short budget only
	expectFail := map[string]bool{}
	for _, f := range findings {
		if f.Kind == "finding" { // a finding is identified by its obligation; it is reported under every property the obligation serves
			expectFail[f.Obligation] = true
			if f.Region != "" {
				expectFail["~"+normOrd(f.Obligation)] = true
			}
		}
	}
	// obligations withdrawn from the claim (/verif/unclaimed.json): not discharged, not counted, listed in the evidence
	unclaimed := loadUnclaimed()
	var notClaimed []string
	{
		var kept []*Obligation
		for _, o := range obls {
			if reason, ok := unclaimed.match(o.Name); ok {
				notClaimed = append(notClaimed, o.Name+" — "+reason)
				continue
			}
			kept = append(kept, o)
		}
		obls = kept
	}
	var normal, expected []*Obligation
	for _, o := range obls {
		if (expectFail[o.Name] || expectFail["~"+normOrd(o.Name)]) && !o.Regioned {
			expected = append(expected, o)
		} else {
			normal = append(normal, o)
		}
	}
	e.Discharge(normal, outDir, timeout, par, tier == "thorough" && os.Getenv("VERIF_ALLAGREE") != "")
	e.Discharge(expected, outDir, 2, par, false)
	// vacuity guards: the assumptions at entry and at exit of every function must be satisfiable
	vac := e.CheckCovers(covers, outDir)

	// classify
	var discharged, failed []*Obligation
	kf := map[string][]Finding{}
	for _, f := range findings {
		if f.Kind == "finding" { // a finding is identified by its obligation; it is reported under every property the obligation serves
			kf[f.Obligation] = append(kf[f.Obligation], f)
			if f.Region != "" && normOrd(f.Obligation) != f.Obligation {
				kf["~"+normOrd(f.Obligation)] = append(kf["~"+normOrd(f.Obligation)], f)
			}
		}
	}
	var waived []string
	var knownLines []string
	nObl := 0
	for _, o := range obls {
		fs, ok := kf[o.Name]
		if !ok {
			fs, ok = kf["~"+normOrd(o.Name)]
		}
		if ok && !o.Regioned {
			// the listed instance itself: expected to fail; it is not part of the claimed set
			if o.Status != "unsat" {
				for _, f := range fs {
					knownLines = append(knownLines, fmt.Sprintf("KNOWN-FINDING: property=%s %s %s", prop, o.Name, f.What))
				}
			}
			waived = append(waived, o.Name)
			continue
		}
		nObl++
		if o.Status == "unsat" {
			discharged = append(discharged, o)
		} else {
			failed = append(failed, o)
		}
	}
	sort.Strings(knownLines)
	for _, l := range knownLines {
		fmt.Println(l)
	}
	// evidence
	ev := map[string]interface{}{}
	ev["property_id"] = prop
	ev["tier"] = tier
	ev["seed"] = seed
	ev["level"] = "proof"
	cov := map[string]interface{}{}
	cov["obligations"] = nObl
	cov["discharged"] = len(discharged)
	cov["checker_cmd"] = "bin/govc check " + prop + " " + tier + "  (VCs from go/ssa of /repo with -tags verif; solvers z3-new 5.1.0, z3 4.8.12, cvc5 1.0.3)"
	cov["functions_under_contract"] = funcs
	backends := map[string]int{}
	var recs []oblRecord
	solverTotal := 0.0
	for _, o := range obls {
		backends[o.Backend+":"+o.Status]++
		solverTotal += o.Secs
		recs = append(recs, oblRecord{o.Name, o.Kind, o.Backend, round3(o.Secs), o.Pos})
	}
	cov["per_obligation"] = recs
	cov["by_backend"] = backends
	cov["solver_s_total"] = round3(solverTotal)
	cov["waived_known_findings"] = waived
	sort.Strings(notClaimed)
	cov["not_claimed"] = notClaimed // withdrawn obligations; pre@/inv ones among them are ASSUMED by later obligations
	cov["vacuity_covers_checked"] = len(covers)
	var samples []interface{}
	for i, o := range obls {
		if i%(len(obls)/3+1) == 0 && len(samples) < 3 {
			samples = append(samples, map[string]string{"name": o.Name, "clause": o.Text, "goal": truncate(sImp(o.Guard, o.Goal), 600)})
		}
	}
	cov["samples"] = samples
	if tier == "thorough" && os.Getenv("VERIF_SCRATCH") == "" {
		// must-fail corpus of this property: every mutant must make one of its expected obligations fail.
		// A missed mutant is a hole in the contracts (reported here), not a violation of the property.
		cov["selftest"] = runSelftest(prop)
	}
	var notes []string
	for n := range e.Notes {
		notes = append(notes, n)
	}
	sort.Strings(notes)
	tb := trustedBase(e)
	cov["trusted_base"] = tb
	cov["dropped_or_abstracted"] = notes
	ev["coverage"] = cov
	ev["assumptions"] = append([]string{
		"Go int arithmetic is modelled with mathematical integers outside functions marked 'overflow checked'",
		"values are immutable, so interface-method meanings (eq, less, kind, ...) are functions of the interface values (that immutability is property C03)",
		"the SSA builder, go/types, the SSA->SMT translation and the SMT solvers are trusted",
	}, notes...)
	ev["wall_s"] = round3(time.Since(t0).Seconds())
	ev["violations"] = len(failed)
	evDir := filepath.Join(verifDir, "evidence")
	if s := os.Getenv("VERIF_SCRATCH"); s != "" {
		evDir = filepath.Join(verifDir, "out", s, "evidence") // mutant / seeded runs must not overwrite the real evidence
	}
	os.MkdirAll(evDir, 0o755)
	b, _ := json.MarshalIndent(ev, "", " ")
	os.WriteFile(filepath.Join(evDir, prop+".json"), append(b, '\n'), 0o644)

	fmt.Printf("govc %s %s: %d obligations, %d discharged, %d known-finding instances waived, %d functions/lemmas, %.1fs\n",
		prop, tier, nObl, len(discharged), len(waived), len(funcs), time.Since(t0).Seconds())
	if vac != "" {
		fmt.Fprintln(os.Stderr, "govc: vacuity guard failed:", vac)
		return 2
	}
	if len(failed) == 0 {
		return 0
	}
	for _, o := range failed {
		e.Replay(o, outDir)
		path := e.WriteReplay(prop, o, outDir)
		suffix := ""
		if !o.Replayed {
			suffix = " no-failing-input-found"
		}
		fmt.Printf("VIOLATION property=%s replay=%s obligation=%s status=%s%s\n", prop, path, o.Name, o.Status, suffix)
	}
	return 1
}

func round3(f float64) float64 { return float64(int(f*1000+0.5)) / 1000 }

func contractServes(con *Contract, prop string) bool {
	if hasProp(con.Tags, prop) || hasProp(con.Props, prop) {
		return true
	}
	for _, cl := range [][]*Clause{con.Requires, con.Ensures, con.Invs, con.Decs} {
		for _, c := range cl {
			if hasProp(c.Props, prop) {
				return true
			}
		}
	}
	if prop == "C03" && con.Kind == "func" && (con.Assigns == "fresh-only" || con.Assigns == "nothing") && !con.Trusted {
		return true
	}
	return false
}

func trustedBase(e *Engine) []string {
	var out []string
	for _, c := range e.CS.Order {
		if c.Trusted {
			out = append(out, "assumed contract: "+c.Kind+" "+c.Name)
		}
	}
	sort.Strings(out)
	out = append(out, "prelude axioms in /verif/specs/*.smt2 (definitions of the specification vocabulary)")
	return out
}

// WriteReplay writes the replay file of a failed obligation.
func (e *Engine) WriteReplay(prop string, o *Obligation, outDir string) string {
	dir := filepath.Join(verifDir, "replays", prop)
	if s := os.Getenv("VERIF_SCRATCH"); s != "" {
		dir = filepath.Join(verifDir, "out", s, "replays", prop)
	}
	os.MkdirAll(dir, 0o755)
	path := filepath.Join(dir, strings.TrimSuffix(o.fileName(), ".smt2")+".json")
	rep := map[string]interface{}{
		"property":      prop,
		"function":      o.Func,
		"obligation":    o.Name,
		"kind":          o.Kind,
		"position":      o.Pos,
		"clause":        o.Text,
		"status":        o.Status,
		"solver_output": o.Output,
		"query_file":    filepath.Join(outDir, o.fileName()),
	}
	if o.Model != nil {
		rep["model"] = o.Model
	}
	if o.ReplayInfo != nil {
		for k, v := range o.ReplayInfo {
			rep[k] = v
		}
	}
	rep["replayed_on_real_code"] = o.Replayed
	b, _ := json.MarshalIndent(rep, "", " ")
	os.WriteFile(path, append(b, '\n'), 0o644)
	return path
}

// CheckCovers: every cover must be satisfiable (sat or unknown); unsat means vacuous assumptions.
func (e *Engine) CheckCovers(covers []*Obligation, outDir string) string {
	// one incremental solver run per function, 1 s per cover: only an `unsat` answer matters (it means the
	// assumptions are contradictory); sat / unknown / timeout all mean "not shown vacuous"
	e.batchDischarge(covers, filepath.Join(outDir, "covers"), parallelism(12), 1000)
	for _, o := range covers {
		if o.Status == "unsat" {
			return o.Name + ": assumptions are contradictory"
		}
	}
	return ""
}

func cmdReplay(args []string) int {
	if len(args) < 1 {
		fmt.Fprintln(os.Stderr, "usage: govc replay <file>")
		return 2
	}
	b, err := os.ReadFile(args[0])
	if err != nil {
		fmt.Fprintln(os.Stderr, err)
		return 2
	}
	var rep map[string]interface{}
	if err := json.Unmarshal(b, &rep); err != nil {
		fmt.Fprintln(os.Stderr, err)
		return 2
	}
	fmt.Printf("obligation %v (%v) at %v\nclause: %v\nstatus: %v\n", rep["obligation"], rep["kind"], rep["position"], rep["clause"], rep["status"])
	if t, ok := rep["go_test"].(string); ok {
		return runReplayTest(rep, t)
	}
	fmt.Println("no executable replay recorded for this obligation (no-failing-input-found); solver output:")
	fmt.Println(rep["solver_output"])
	return 1
}
