package main

// Development aid (w-c09): `VERIF_OBL=<regexp> govc func <key>` discharges only the obligations whose
// name matches. Has no effect on `check`.

import (
	"os"
	"regexp"
)

func filterObls(obls []*Obligation) []*Obligation {
	pat := os.Getenv("VERIF_OBL")
	if pat == "" {
		return obls
	}
	re, err := regexp.Compile(pat)
	if err != nil {
		return obls
	}
	var out []*Obligation
	for _, o := range obls {
		if re.MatchString(o.Name) {
			out = append(out, o)
		}
	}
	return out
}
