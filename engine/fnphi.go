package main

// Calls through a local func variable whose possible values are statically known (added by w-c04).
//
//	var f func(...)
//	switch mode { case A: f = r.MethodX; case B: f = func(...) {...}; ... }
//	return f(args)
//
// In SSA the callee is a Phi over MakeClosure values (anonymous functions, or `$bound` wrappers of
// method values). When every alternative has a contract the call is verified by cases: under
// `f == closure_i` the i-th contract is applied (its requires become obligations with that path
// condition, its ensures are assumed), and the resulting states are merged like CFG edges.
// The closure constants of different MakeClosure instructions are asserted pairwise distinct (they
// are different code), and `safe.fnis` obliges f to be one of them.

import (
	"fmt"
	"go/token"
	"go/types"
	"strings"

	"golang.org/x/tools/go/ssa"
)

type fnAlt struct {
	mc   *ssa.MakeClosure
	key  string
	con  *Contract
	recv ssa.Value // bound method value: the receiver (first argument of the method's contract)
}

func (vc *VC) fnAlternatives(v ssa.Value, seen map[ssa.Value]bool, out *[]fnAlt) bool {
	if seen[v] {
		return true
	}
	seen[v] = true
	switch x := v.(type) {
	case *ssa.Phi:
		for _, e := range x.Edges {
			if !vc.fnAlternatives(e, seen, out) {
				return false
			}
		}
		return true
	case *ssa.MakeClosure:
		fn, ok := x.Fn.(*ssa.Function)
		if !ok {
			return false
		}
		alt := fnAlt{mc: x}
		if strings.HasSuffix(fn.Name(), "$bound") && len(x.Bindings) == 1 {
			m, ok := fn.Object().(*types.Func)
			if !ok {
				return false
			}
			alt.key = methodKey(m)
			alt.recv = x.Bindings[0]
		} else {
			alt.key = funcKey(fn)
		}
		alt.con = vc.eng.CS.Contracts[alt.key]
		if alt.con == nil {
			return false
		}
		*out = append(*out, alt)
		return true
	case *ssa.Const:
		return x.Value == nil // the nil func: excluded by safe.nilfn
	}
	return false
}

// callFnPhi returns (result, true) when the callee value is a phi of closures that all have contracts.
func (vc *VC) callFnPhi(c *ssa.CallCommon, f string, st *State, reach string, resT types.Type) (SV, bool) {
	if _, ok := c.Value.(*ssa.Phi); !ok {
		return nil, false
	}
	var alts []fnAlt
	if !vc.fnAlternatives(c.Value, map[ssa.Value]bool{}, &alts) || len(alts) == 0 {
		return nil, false
	}
	var consts []string
	for _, a := range alts {
		consts = append(consts, vc.val(a.mc).(Sc).T)
	}
	if len(consts) > 1 {
		vc.emit("(assert (distinct " + strings.Join(consts, " ") + "))")
	}
	var isOne []string
	for _, k := range consts {
		isOne = append(isOne, sEq(f, k))
	}
	vc.safety("fnis", reach, sOr(isOne...), c.Pos())
	var es []edge
	var results []SV
	for i, a := range alts {
		sti := st.clone()
		cond := sAnd(reach, sEq(f, consts[i]))
		var args []SV
		if a.recv != nil {
			args = append(args, vc.typedSV(vc.val(a.recv), a.recv.Type()))
		} else {
			vc.curBind = closureBindings(a.mc)
		}
		for _, x := range c.Args {
			args = append(args, vc.typedSV(vc.val(x), x.Type()))
		}
		n := vc.callN[a.key]
		vc.callN[a.key] = n + 1
		r := vc.applyContract(a.con, a.key, n, args, sti, cond, resT, c.Pos())
		vc.curBind = nil
		es = append(es, edge{cond: cond, st: sti})
		results = append(results, r)
	}
	_, merged := vc.mergeEdges(c.Value.(*ssa.Phi).Block(), es)
	*st = *merged
	res := results[len(results)-1]
	tup := resT.(*types.Tuple)
	var rt types.Type = tup
	if tup.Len() == 1 {
		rt = tup.At(0).Type()
	}
	switch {
	case tup.Len() == 1:
		for i := len(results) - 2; i >= 0; i-- {
			res = iteSV(rt, sEq(f, consts[i]), results[i], res)
		}
	case tup.Len() > 1:
		parts := append([]SV(nil), res.(St).F...)
		for i := len(results) - 2; i >= 0; i-- {
			for j := range parts {
				parts[j] = iteSV(tup.At(j).Type(), sEq(f, consts[i]), results[i].(St).F[j], parts[j])
			}
		}
		res = St{Typ: tup, F: parts}
	}
	vc.eng.note(fmt.Sprintf("call through a func variable in %s resolved by cases over %d closures with contracts", vc.key, len(alts)))
	_ = token.NoPos
	return res, true
}
