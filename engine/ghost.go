package main

// Ghost state helpers (w-c19).
//
//   //@ ghost fswrites: Int            declares a ghost variable (contract.go)
//   //@   ghostentry fspending := e    in a func contract: the function is instrumented with the ghost
//                                      assignment `fspending := e` at its entry (e is evaluated in the entry
//                                      state). Callers see the effect only through the contract's own
//                                      `modifies` + `ensures`, which the body is verified against as usual.

//   //@   ghostexit fsdryok := e       the ghost assignment is executed at every return (e sees the results,
//                                      the exit state and old(...)), before the postconditions are checked.

import "strings"

type GhostAssign struct {
	Name string
	Expr Expr
	Text string
}

func parseGhostEntry(t string) (GhostAssign, bool) {
	rest := strings.TrimSpace(strings.TrimPrefix(strings.TrimPrefix(t, "ghostentry"), "ghostexit"))
	kv := strings.SplitN(rest, ":=", 2)
	if len(kv) != 2 {
		return GhostAssign{}, false
	}
	e, err := ParseExpr(strings.TrimSpace(kv[1]))
	if err != nil {
		return GhostAssign{}, false
	}
	return GhostAssign{Name: strings.TrimSpace(kv[0]), Expr: e, Text: rest}, true
}

func (cs *ContractSet) ghostSort(name string) (string, bool) {
	for _, g := range cs.Ghosts {
		if g.Name == name {
			return g.Sort, true
		}
	}
	return "", false
}

// touchGhost makes sure the state variable of ghost m is known (state variables are created lazily; a
// `modifies m` that is met before any clause mentioned m must still havoc it).
func (vc *VC) touchGhost(st *State, m string) {
	if srt, ok := vc.eng.CS.ghostSort(m); ok {
		vc.get(st, "G|"+m, srt)
	}
}

// applyGhostEntry runs the `ghostentry` assignments of the function under verification.
func (vc *VC) applyGhostEntry(st *State) {
	if vc.con == nil {
		return
	}
	for _, ga := range vc.con.GhostEntry {
		srt, ok := vc.eng.CS.ghostSort(ga.Name)
		if !ok {
			panic(specErr("ghostentry: unknown ghost variable " + ga.Name))
		}
		env := vc.newEnv(vc.st0, vc.st0, nil)
		v, isSc := env.eval(ga.Expr).(Sc)
		if !isSc || v.S != srt {
			panic(specErr("ghostentry " + ga.Text + ": expression is not of sort " + srt))
		}
		vc.set(st, "G|"+ga.Name, srt, vc.define("G."+ga.Name, srt, v.T))
	}
}

// applyGhostExit runs the `ghostexit` assignments on the state of one return (env has the results bound).
func (vc *VC) applyGhostExit(env *Env, guard string) {
	if vc.con == nil || len(vc.con.GhostExit) == 0 {
		return
	}
	st := env.st.clone()
	for _, ga := range vc.con.GhostExit {
		srt, ok := vc.eng.CS.ghostSort(ga.Name)
		if !ok {
			panic(specErr("ghostexit: unknown ghost variable " + ga.Name))
		}
		v, isSc := env.eval(ga.Expr).(Sc)
		if !isSc || v.S != srt {
			panic(specErr("ghostexit " + ga.Text + ": expression is not of sort " + srt))
		}
		vc.set(st, "G|"+ga.Name, srt, vc.define("G."+ga.Name, srt, v.T))
	}
	env.st = st
}
