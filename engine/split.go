package main

// Case splitting on the reachability condition of an obligation.
//
// The guard of an obligation at a join point is a symbol defined as the disjunction of the
// incoming edge conditions: (assert (= reach.bN!k (or e1 e2 ...))). When the merged query is not
// proved, the obligation is retried once per disjunct with that disjunct asserted. If every case
// is unsat the obligation holds (the disjuncts cover the guard), so this is sound; it only helps
// the solvers, whose quantifier instantiation struggles with ite-merged terms.

import (
	"context"
	"fmt"
	"os"
	"path/filepath"
	"strings"
)

// defOf finds the definition (assert (= sym <term>)) of a reach/condition symbol in the script.
func defOf(script []string, sym string) string {
	prefix := "(assert (= " + sym + " "
	for _, l := range script {
		if strings.HasPrefix(l, prefix) {
			return strings.TrimSuffix(strings.TrimPrefix(l, prefix), "))")
		}
	}
	return ""
}

// expandCases rewrites a reachability term into a list of cases (conjunctions) that together cover it:
// `or` becomes alternatives, `and` the product, reach symbols are unfolded through their definitions.
func expandCases(script []string, term string, depth int) []string {
	const limit = 16
	if depth > 8 {
		return []string{term}
	}
	if !strings.HasPrefix(term, "(") {
		if strings.HasPrefix(term, "reach.") {
			if d := defOf(script, term); d != "" {
				cs := expandCases(script, d, depth+1)
				if len(cs) > 1 && len(cs) <= limit {
					return cs
				}
			}
		}
		return []string{term}
	}
	el := listElems(term)
	switch el[0] {
	case "or":
		var out []string
		for _, d := range el[1:] {
			out = append(out, expandCases(script, d, depth+1)...)
		}
		if len(out) > limit {
			return []string{term}
		}
		return out
	case "and":
		cases := []string{""}
		for _, c := range el[1:] {
			sub := expandCases(script, c, depth+1)
			if len(cases)*len(sub) > limit {
				sub = []string{c}
			}
			var next []string
			for _, a := range cases {
				for _, b := range sub {
					if a == "" {
						next = append(next, b)
					} else {
						next = append(next, "(and "+a+" "+b+")")
					}
				}
			}
			cases = next
		}
		return cases
	}
	return []string{term}
}

// guardCases expands the guard into covering cases (at most 16).
func guardCases(script []string, guard string) []string {
	cs := expandCases(script, guard, 0)
	if len(cs) < 2 {
		return nil
	}
	return cs
}

// trySplit proves o by cases on its guard. Returns true iff every case is unsat.
func (e *Engine) trySplit(o *Obligation, outDir string, timeout int) (float64, bool) {
	cases := guardCases((*o.Script)[:o.Prefix], o.Guard)
	if len(cases) < 2 {
		return 0, false
	}
	total := 0.0
	for i, c := range cases {
		saved := o.Extra
		o.Extra = append(append([]string(nil), saved...), "(assert "+c+")")
		txt := e.queryText(o, false)
		o.Extra = saved
		file := filepath.Join(outDir, strings.TrimSuffix(o.fileName(), ".smt2")+fmt.Sprintf(".case%d.smt2", i))
		os.WriteFile(file, []byte(txt), 0o644)
		proved := false
		ctx, cancel := context.WithCancel(context.Background())
		ch := make(chan solveResult, len(solvers))
		for _, sp := range solvers {
			go func(sp solverSpec) { ch <- runSolver(ctx, sp, file, timeout) }(sp)
		}
		for range solvers {
			rr := <-ch
			if rr.status == "unsat" {
				proved = true
				total += rr.secs
				break
			}
		}
		cancel()
		if !proved {
			// is the case infeasible? (assumptions + case without the negated goal; unsat => nothing to prove)
			var body strings.Builder
			flines, _ := sliceScript((*o.Script)[:o.Prefix], strings.Join(o.Extra, "\n")+"\n"+c+"\n"+o.Guard+"\n"+o.Goal)
			for _, l := range flines {
				body.WriteString(l + "\n")
			}
			for _, l := range o.Extra {
				body.WriteString(l + "\n")
			}
			body.WriteString("(assert " + c + ")\n") // the case implies the guard (cases are the guard's disjuncts)
			b := body.String()
			txt := "; obligation " + o.Name + fmt.Sprintf(" (case %d: feasibility)\n", i) + "(set-logic ALL)\n" + e.Prelude.Slice(b) + b + "(check-sat)\n"
			ffile := strings.TrimSuffix(file, ".smt2") + ".feas.smt2"
			os.WriteFile(ffile, []byte(txt), 0o644)
			for _, sp := range solvers[:2] {
				if rr := runSolver(context.Background(), sp, ffile, timeout); rr.status == "unsat" {
					proved = true
					total += rr.secs
					break
				}
			}
		}
		if !proved {
			// the same case on the relevance-sliced script (sound: fewer assumptions)
			goal := strings.Join(o.Extra, "\n") + "\n" + c + "\n" + o.Guard + "\n" + o.Goal
			lines, dropped := sliceScript((*o.Script)[:o.Prefix], goal)
			if dropped {
				var body strings.Builder
				for _, l := range lines {
					body.WriteString(l + "\n")
				}
				for _, l := range o.Extra {
					body.WriteString(l + "\n")
				}
				body.WriteString("(assert " + c + ")\n(assert (not " + sImp(o.Guard, o.Goal) + "))\n")
				b := body.String()
				txt := "; obligation " + o.Name + fmt.Sprintf(" (case %d, relevance slice)\n", i) + "(set-logic ALL)\n" + e.Prelude.Slice(b) + b + "(check-sat)\n"
				sfile := strings.TrimSuffix(file, ".smt2") + ".sliced.smt2"
				os.WriteFile(sfile, []byte(txt), 0o644)
				ctx2, cancel2 := context.WithCancel(context.Background())
				ch2 := make(chan solveResult, len(solvers))
				for _, sp := range solvers {
					go func(sp solverSpec) { ch2 <- runSolver(ctx2, sp, sfile, timeout) }(sp)
				}
				for range solvers {
					rr := <-ch2
					if rr.status == "unsat" {
						proved = true
						total += rr.secs
						break
					}
				}
				cancel2()
			}
		}
		if !proved {
			return total, false
		}
	}
	return total, true
}
