package main

// Case splitting on the reachability condition of an obligation.
//
// The guard of an obligation at a join point is a symbol defined as the disjunction of the
// incoming edge conditions: (assert (= reach.bN!k (or e1 e2 ...))). When the merged query is not
// proved, the obligation is retried once per disjunct with that disjunct asserted. If every case
// is unsat the obligation holds (the disjuncts cover the guard), so this is sound; it only helps
// the solvers, whose quantifier instantiation struggles with ite-merged terms.

import (
	"context"
	"fmt"
	"os"
	"path/filepath"
	"strings"
)

// disjunctsOf finds the definition of sym in the script and returns its top-level disjuncts.
func disjunctsOf(script []string, sym string) []string {
	prefix := "(assert (= " + sym + " (or "
	for _, l := range script {
		if strings.HasPrefix(l, prefix) {
			body := strings.TrimSuffix(strings.TrimPrefix(l, "(assert (= "+sym+" "), "))")
			el := listElems(body)
			if len(el) >= 3 && el[0] == "or" {
				return el[1:]
			}
		}
	}
	return nil
}

// guardCases expands the guard into cases (at most two levels of reach definitions, at most 12 cases).
func guardCases(script []string, guard string) []string {
	var atoms []string
	if strings.HasPrefix(guard, "(and ") {
		atoms = listElems(guard)[1:]
	} else {
		atoms = []string{guard}
	}
	cases := []string{""}
	for _, a := range atoms {
		ds := disjunctsOf(script, a)
		if ds == nil {
			continue
		}
		// one more level: a disjunct of the form (and reach.bM c) or reach.bM
		var expanded []string
		for _, d := range ds {
			first := d
			if strings.HasPrefix(d, "(and ") {
				first = listElems(d)[1]
			}
			inner := disjunctsOf(script, first)
			if inner != nil && len(ds)*len(inner) <= 12 {
				for _, in := range inner {
					expanded = append(expanded, "(and "+d+" "+in+")")
				}
			} else {
				expanded = append(expanded, d)
			}
		}
		var next []string
		for _, c := range cases {
			for _, d := range expanded {
				if c == "" {
					next = append(next, d)
				} else {
					next = append(next, "(and "+c+" "+d+")")
				}
			}
		}
		if len(next) > 12 {
			continue
		}
		cases = next
	}
	if len(cases) == 1 && cases[0] == "" {
		return nil
	}
	return cases
}

// trySplit proves o by cases on its guard. Returns true iff every case is unsat.
func (e *Engine) trySplit(o *Obligation, outDir string, timeout int) (float64, bool) {
	cases := guardCases((*o.Script)[:o.Prefix], o.Guard)
	if len(cases) < 2 {
		return 0, false
	}
	total := 0.0
	for i, c := range cases {
		saved := o.Extra
		o.Extra = append(append([]string(nil), saved...), "(assert "+c+")")
		txt := e.queryText(o, false)
		o.Extra = saved
		file := filepath.Join(outDir, strings.TrimSuffix(o.fileName(), ".smt2")+fmt.Sprintf(".case%d.smt2", i))
		os.WriteFile(file, []byte(txt), 0o644)
		proved := false
		ctx, cancel := context.WithCancel(context.Background())
		ch := make(chan solveResult, len(solvers))
		for _, sp := range solvers {
			go func(sp solverSpec) { ch <- runSolver(ctx, sp, file, timeout) }(sp)
		}
		for range solvers {
			rr := <-ch
			if rr.status == "unsat" {
				proved = true
				total += rr.secs
				break
			}
		}
		cancel()
		if !proved {
			return total, false
		}
	}
	return total, true
}
