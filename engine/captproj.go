package main

// Captured-variable projections and deferred literals (worker x-c17, properties C17 and C11).
//
//   captured("<literal key>", "<name>", f)
//        the content of the captured variable <name> of a closure value f of the function literal <literal key>
//        (e.g. captured("(*engine.Engine).Observe$1", "id", w.cancel)). It is an uninterpreted projection
//        capt.<key>.<name>(f) of the closure value. The link to the program: at every MakeClosure of that
//        literal the engine assumes  capt.<key>.<name>(closure) == content of the bound cell at creation.
//        This is only meaningful for WRITE-ONCE cells; checked syntactically (writeOnceCapture): the bound
//        value is a local cell (Alloc) with exactly one Store in the parent, that Store precedes the
//        MakeClosure (same block earlier, or in a strictly dominating block), no function literal that
//        captures the cell stores to it, and the cell's address is used for nothing but loads, that store
//        and closure bindings. Otherwise the spec is rejected (specErr).
//
//   call through a `fnfield` whose target is a function literal: the captured variables named in the
//        literal's contract are not known at such a call (effects.go). They are now bound to the projections
//        capt.<key>.<name>(f) of the function value f loaded from the field (write-once cells only; other
//        names stay unresolved and a clause naming them is skipped at that call — assuming less is sound).
//
//   defer of a function literal that has a contract (and the unit does NOT declare `abstract defer`):
//        `defer func() {...}()` registered in a block that dominates every exit: at each `rundefers` the
//        CONTRACT of the literal is applied (requires become obligations pre@<literal>#n, ensures are assumed,
//        state changes as its assigns/modifies allow), captured variables bound as at a direct call.
//        Postconditions of the unit are therefore checked in the state AFTER the deferred call. Restrictions
//        (panic(unsupported) otherwise): the deferred value is a MakeClosure of a literal with a contract,
//        takes no arguments, and its Defer instruction dominates the block of the rundefers. Panics are not
//        modelled (a deferred call also runs when the body panics; that path is outside the proved clauses).

import (
	"fmt"
	"go/token"
	"go/types"
	"strings"

	"golang.org/x/tools/go/ssa"
)

// ---- write-once check ---------------------------------------------------------------------------------

// writeOnceCapture: nil if free variable #ix of literal fn is bound, at every MakeClosure in the parent, to a
// write-once local cell (see header); otherwise the reason.
func writeOnceCapture(fn *ssa.Function, ix int) error {
	par := fn.Parent()
	if par == nil {
		return fmt.Errorf("%s is not a function literal", fn.Name())
	}
	nmc := 0
	for _, b := range par.Blocks {
		for pos, in := range b.Instrs {
			mc, ok := in.(*ssa.MakeClosure)
			if !ok || mc.Fn != ssa.Value(fn) {
				continue
			}
			nmc++
			if ix >= len(mc.Bindings) {
				return fmt.Errorf("no binding #%d", ix)
			}
			a, ok := mc.Bindings[ix].(*ssa.Alloc)
			if !ok {
				return fmt.Errorf("captured variable %s is not bound to a local cell", fn.FreeVars[ix].Name())
			}
			var store *ssa.Store
			for _, r := range *a.Referrers() {
				switch u := r.(type) {
				case *ssa.DebugRef:
				case *ssa.Store:
					if u.Addr != ssa.Value(a) || u.Val == ssa.Value(a) {
						return fmt.Errorf("cell %s escapes (stored as a value)", a.Comment)
					}
					if store != nil {
						return fmt.Errorf("cell %s is stored to more than once", a.Comment)
					}
					store = u
				case *ssa.UnOp:
					if u.Op != token.MUL {
						return fmt.Errorf("cell %s: unexpected use", a.Comment)
					}
				case *ssa.MakeClosure:
					lit := u.Fn.(*ssa.Function)
					for j, bnd := range u.Bindings {
						if bnd != ssa.Value(a) {
							continue
						}
						if err := noStoreThrough(lit, lit.FreeVars[j]); err != nil {
							return err
						}
					}
				default:
					return fmt.Errorf("cell %s escapes (%T)", a.Comment, r)
				}
			}
			if store == nil {
				return fmt.Errorf("cell %s is never initialised", a.Comment)
			}
			sb := store.Block()
			before := false
			if sb == b {
				for _, x := range b.Instrs[:pos] {
					if x == ssa.Instruction(store) {
						before = true
					}
				}
			} else if sb.Dominates(b) {
				before = true
			}
			if !before {
				return fmt.Errorf("cell %s is written after the closure is created", a.Comment)
			}
		}
	}
	if nmc == 0 {
		return fmt.Errorf("no MakeClosure of %s in its parent", fn.Name())
	}
	return nil
}

// noStoreThrough: the literal uses its free variable fv only to load from it (or to hand it to literals that do the same).
func noStoreThrough(lit *ssa.Function, fv *ssa.FreeVar) error {
	for _, r := range *fv.Referrers() {
		switch u := r.(type) {
		case *ssa.DebugRef:
		case *ssa.UnOp:
			if u.Op != token.MUL {
				return fmt.Errorf("captured cell %s: unexpected use in %s", fv.Name(), lit.Name())
			}
		case *ssa.MakeClosure:
			inner := u.Fn.(*ssa.Function)
			for j, bnd := range u.Bindings {
				if bnd == ssa.Value(fv) {
					if err := noStoreThrough(inner, inner.FreeVars[j]); err != nil {
						return err
					}
				}
			}
		default:
			return fmt.Errorf("captured cell %s is written or escapes in %s (%T)", fv.Name(), lit.Name(), r)
		}
	}
	return nil
}

// ---- projections ----------------------------------------------------------------------------------------

func freeVarIndex(fn *ssa.Function, name string) int {
	for i, fv := range fn.FreeVars {
		if fv.Name() == name {
			return i
		}
	}
	return -1
}

// captTerm: the projection of free variable #ix of literal `key` applied to closure term f, as a typed value.
func (vc *VC) captTerm(key string, fn *ssa.Function, ix int, f string) SV {
	fv := fn.FreeVars[ix]
	p, ok := fv.Type().Underlying().(*types.Pointer)
	if !ok {
		panic(specErr("captured(): free variable " + fv.Name() + " of " + key + " is not a cell"))
	}
	t := p.Elem()
	sorts := sortsOf(t)
	ls := make([]string, len(sorts))
	for j, s := range sorts {
		name := fmt.Sprintf("capt.%s.%s.%d", sanitize(key), sanitize(fv.Name()), j)
		vc.declareFun(name, []string{"Fn"}, s)
		ls[j] = app(name, f)
	}
	return vc.typedSV(mkSV(t, ls), t)
}

// captured("<key>", "<name>", f)
func (e *Env) capturedSpec(n ECall) SV {
	vc := e.vc
	if len(n.Args) != 3 {
		e.fail(`captured("<literal key>", "<name>", f)`)
	}
	ks, ok1 := n.Args[0].(EStr)
	ns, ok2 := n.Args[1].(EStr)
	if !ok1 || !ok2 {
		e.fail(`captured("<literal key>", "<name>", f): key and name must be string literals`)
	}
	fn := vc.eng.Funcs[ks.V]
	if fn == nil {
		e.fail("captured(): unknown function literal %q", ks.V)
	}
	ix := freeVarIndex(fn, ns.V)
	if ix < 0 {
		e.fail("captured(): %s does not capture a variable named %q", ks.V, ns.V)
	}
	if err := writeOnceCapture(fn, ix); err != nil {
		e.fail("captured(%q, %q): not a write-once capture: %v", ks.V, ns.V, err)
	}
	f, ok := e.eval(n.Args[2]).(Sc)
	if !ok || f.S != "Fn" {
		e.fail("captured(): third argument must be a function value")
	}
	return vc.captTerm(ks.V, fn, ix, f.T)
}

// captureHook (at MakeClosure): tie the projections of the new closure value to the content of its write-once cells.
func (vc *VC) captureHook(mc *ssa.MakeClosure, f string, st *State, reach string) {
	fn := mc.Fn.(*ssa.Function)
	key := funcKey(fn)
	if !vc.eng.projectedLiterals()[key] {
		return
	}
	for i, b := range mc.Bindings {
		if i >= len(fn.FreeVars) || writeOnceCapture(fn, i) != nil {
			continue
		}
		p, ok := vc.val(b).(Pt)
		if !ok {
			continue
		}
		var content SV
		switch p.Kind {
		case "local":
			cell, ok := st.locals[p.Local]
			if !ok {
				continue
			}
			content = getPath(cell, p.Path)
		case "heap": // captured cells are heap-allocated (`new T (name)`)
			content = vc.readHeapPtr(st, p)
		default:
			continue
		}
		cur, ok := safeLeaves(content)
		if !ok {
			continue
		}
		proj, ok := safeLeaves(vc.captTerm(key, fn, i, f))
		if !ok || len(proj) != len(cur) {
			continue
		}
		for j := range cur {
			vc.assume(reach, sEq(proj[j], cur[j]))
		}
		vc.eng.note("closure of " + key + " created in " + vc.key + ": captured(…, \"" + fn.FreeVars[i].Name() + "\", closure) = content of the write-once cell at creation")
	}
}

// projectedLiterals: literal keys named in some captured("…") of any contract, or targets of fnfield declarations.
func (e *Engine) projectedLiterals() map[string]bool {
	if e.projLits != nil {
		return e.projLits
	}
	e.projLits = map[string]bool{}
	for _, c := range e.CS.Order {
		for _, cls := range [][]*Clause{c.Requires, c.Ensures, c.Invs, c.IterEns} {
			for _, cl := range cls {
				t := cl.Text
				for {
					i := strings.Index(t, `captured("`)
					if i < 0 {
						break
					}
					t = t[i+len(`captured("`):]
					if j := strings.Index(t, `"`); j >= 0 {
						e.projLits[t[:j]] = true
					}
				}
			}
		}
	}
	for _, m := range e.CS.Macros {
		t := m.Text
		for {
			i := strings.Index(t, `captured("`)
			if i < 0 {
				break
			}
			t = t[i+len(`captured("`):]
			if j := strings.Index(t, `"`); j >= 0 {
				e.projLits[t[:j]] = true
			}
		}
	}
	for _, target := range e.CS.Decls.FnFields {
		e.projLits[target] = true
	}
	return e.projLits
}

// fieldCallTerms: captured-variable terms for a call of literal `target` through function value f.
func (vc *VC) fieldCallTerms(target, f string) map[string]SV {
	fn := vc.eng.Funcs[target]
	if fn == nil || fn.Parent() == nil || len(fn.FreeVars) == 0 {
		return nil
	}
	out := map[string]SV{}
	for i, fv := range fn.FreeVars {
		if writeOnceCapture(fn, i) == nil {
			out[fv.Name()] = vc.captTerm(target, fn, i, f)
		}
	}
	return out
}

// ---- deferred literals --------------------------------------------------------------------------------------

// deferLiteral: true if the Defer was registered for contract application at rundefers.
func (vc *VC) deferLiteral(x *ssa.Defer) bool {
	mc, ok := x.Call.Value.(*ssa.MakeClosure)
	if !ok || len(x.Call.Args) != 0 {
		return false
	}
	fn, ok := mc.Fn.(*ssa.Function)
	if !ok || vc.eng.CS.Contracts[funcKey(fn)] == nil {
		return false
	}
	for _, d := range vc.defers {
		if d == x {
			return true
		}
	}
	vc.defers = append(vc.defers, x)
	return true
}

// runDefers: apply the contracts of the registered deferred literals, last registered first.
func (vc *VC) runDefers(x *ssa.RunDefers, st *State, reach string) {
	for i := len(vc.defers) - 1; i >= 0; i-- {
		d := vc.defers[i]
		if d.Block() != x.Block() && !d.Block().Dominates(x.Block()) {
			panic(unsupported("defer of a contracted literal that does not dominate the function exit"))
		}
		vc.eng.note("deferred literal " + funcKey(d.Call.Value.(*ssa.MakeClosure).Fn.(*ssa.Function)) + " in " + vc.key + ": its contract is applied at every exit (rundefers); panics are not modelled")
		vc.call(nil, &d.Call, st, reach)
	}
}

// tryEvalBool: evalBool, reporting failure to resolve a name (specErr) instead of panicking.
func (vc *VC) tryEvalBool(env *Env, x Expr) (g string, ok bool) {
	defer func() {
		if r := recover(); r != nil {
			if _, isSpec := r.(specErr); isSpec {
				g, ok = "", false
				return
			}
			panic(r)
		}
	}()
	return vc.evalBool(env, x), true
}
