package main

import (
	"fmt"
	"go/token"
	"go/types"
	"strings"

	"golang.org/x/tools/go/ssa"
)

func (vc *VC) addEdge(from, to *ssa.BasicBlock, cond string, st *State) {
	if vc.backTo[to][from] {
		vc.backEdge(from, to, cond, st)
		return
	}
	vc.edges[to] = append(vc.edges[to], edge{from, cond, st})
}

// backEdge: the invariant must hold again, the variant must decrease.
func (vc *VC) backEdge(from, h *ssa.BasicBlock, cond string, st *State) {
	li := vc.loops[h]
	// bind the header's phis to the values flowing along this edge
	saved := map[*ssa.Phi]SV{}
	idx := predIndex(h, from)
	for _, in := range h.Instrs {
		phi, ok := in.(*ssa.Phi)
		if !ok {
			break
		}
		saved[phi] = vc.vals[phi]
	}
	newv := map[*ssa.Phi]SV{}
	for phi := range saved {
		newv[phi] = vc.val(phi.Edges[idx])
	}
	vc.loopSteps(li, from, h, newv, cond, st)
	for phi, v := range newv {
		vc.vals[phi] = v
	}
	env := vc.newEnv(st, vc.st0, h)
	suffix := ""
	if len(vc.backTo[h]) > 1 {
		suffix = fmt.Sprintf("@b%d", from.Index)
	}
	for _, inv := range vc.loopInvs(li.index) {
		vc.oblige("inv.step", fmt.Sprintf("inv.%d.%s.step%s", li.index, inv.Label, suffix), inv.Props, cond, vc.evalBool(env, inv.Expr), inv.Text, token.NoPos)
	}
	vc.autoFrameInv(li, "step"+suffix, cond, st)
	if vc.dry == 0 {
		vc.iterEnsures(from, h, cond, st, suffix)
	}
	for i, d := range vc.loopDecs(li.index) {
		if i >= len(vc.decAt[h]) { // dry run of the loop body: the variant is not recorded yet
			continue
		}
		nv := vc.evalInt(env, d.Expr)
		old := vc.decAt[h][i]
		vc.oblige("dec", fmt.Sprintf("dec.%d%s", li.index, suffix), d.Props, cond, sAnd(app("<=", "0", old), app("<", nv, old)), d.Text, token.NoPos)
	}
	for phi, v := range saved {
		vc.vals[phi] = v
	}
}

func (vc *VC) exec(b *ssa.BasicBlock, in ssa.Instruction, st *State, reach string) {
	switch x := in.(type) {
	case *ssa.DebugRef:
		return
	case *ssa.Jump:
		vc.addEdge(b, b.Succs[0], reach, st)
	case *ssa.If:
		c := vc.val(x.Cond).(Sc).T
		c = vc.define("c", "Bool", c)
		vc.addEdge(b, b.Succs[0], sAnd(reach, c), st)
		vc.addEdge(b, b.Succs[1], sAnd(reach, sNot(c)), st.clone())
	case *ssa.Return:
		var res []SV
		for _, r := range x.Results {
			res = append(res, vc.val(r))
		}
		vc.rets = append(vc.rets, retEdge{reach, st, res, x.Pos()})
	case *ssa.Panic:
		vc.safety("panic", reach, "false", x.Pos())
	case *ssa.BinOp:
		vc.vals[x] = vc.binop(x, st, reach)
	case *ssa.UnOp:
		vc.vals[x] = vc.unop(x, st, reach)
	case *ssa.Alloc:
		vc.alloc(x, st)
	case *ssa.Store:
		vc.storeHook(x, st, reach)
		vc.store(vc.val(x.Addr), vc.val(x.Val), st, reach, x.Pos())
	case *ssa.FieldAddr:
		vc.vals[x] = vc.fieldAddr(x, st, reach)
	case *ssa.Field:
		vc.vals[x] = vc.val(x.X).(St).F[x.Field]
	case *ssa.IndexAddr:
		vc.vals[x] = vc.indexAddr(x, st, reach)
	case *ssa.Index:
		vc.vals[x] = vc.index(x, st, reach)
	case *ssa.Slice:
		vc.vals[x] = vc.slice(x, st, reach)
	case *ssa.Extract:
		vc.vals[x] = vc.val(x.Tuple).(St).F[x.Index]
	case *ssa.Phi:
		panic("phi outside block head")
	case *ssa.Call:
		vc.vals[x] = vc.call(x, &x.Call, st, reach)
	case *ssa.MakeInterface:
		vc.vals[x] = vc.makeInterface(x.X.Type(), vc.val(x.X))
	case *ssa.ChangeInterface:
		vc.vals[x] = vc.val(x.X)
	case *ssa.ChangeType:
		vc.vals[x] = mkSV(x.Type(), toLeaves(vc.val(x.X)))
	case *ssa.Convert:
		vc.vals[x] = vc.convert(x, st, reach)
	case *ssa.TypeAssert:
		vc.vals[x] = vc.typeAssert(x, st, reach)
	case *ssa.MakeSlice:
		vc.vals[x] = vc.makeSlice(x, st, reach)
	case *ssa.MakeClosure:
		f := vc.fresh("closure."+x.Fn.Name(), "Fn")
		vc.vals[x] = Sc{"Fn", f}
		vc.assume("true", sNot(sEq(f, "nilFn"))) // a closure value is never nil
		vc.makeClosureHook(x, st, reach)          // effects.go
		vc.closureDefHook(x, f, st, reach)        // closuredef.go (w-c01)
		vc.captureHook(x, f, st, reach)           // captproj.go (x-c17)
	case *ssa.MakeMap:
		vc.vals[x] = vc.makeMap(x, st)
	case *ssa.MapUpdate:
		vc.mapUpdate(x, st, reach)
	case *ssa.Lookup:
		vc.vals[x] = vc.lookup(x, st, reach)
	case *ssa.Range:
		vc.vals[x] = vc.rangeInit(x, st)
	case *ssa.Next:
		vc.vals[x] = vc.next(x, st, reach)
	case *ssa.RunDefers:
		vc.runDefers(x, st, reach) // captproj.go (x-c17): contracts of deferred literals
		return
	case *ssa.Defer:
		vc.deferCall(x, st, reach)
	case *ssa.Go:
		vc.eng.note("go statement in " + vc.key + ": spawned function is not interleaved; it is a unit of its own")
	case *ssa.Send:
		vc.chanSend(x, st, reach)
	case *ssa.Select:
		vc.vals[x] = vc.selectInstr(x, st, reach)
	case *ssa.MakeChan:
		r := vc.bumpAlloc(st)
		vc.vals[x] = Sc{"Int", r}
		vc.makeChanHook(x, r, reach) // effects.go
	default:
		panic(unsupported(fmt.Sprintf("instruction %T", in)))
	}
}

// ---- arithmetic -------------------------------------------------------------------------------

func isUnsigned(t types.Type) bool {
	b, ok := t.Underlying().(*types.Basic)
	return ok && b.Info()&types.IsUnsigned != 0
}

func (vc *VC) wrap(t types.Type, term string, reach string, pos token.Pos) string {
	lo, hi, ok := intRange(t)
	if !ok {
		return term
	}
	if vc.con != nil && vc.con.Overflow {
		term = vc.define("ar", "Int", term)
		vc.safety("overflow", reach, sAnd(app("<=", lo, term), app("<=", term, hi)), pos)
	}
	return term
}

func (vc *VC) binop(x *ssa.BinOp, st *State, reach string) SV {
	a, b := vc.val(x.X), vc.val(x.Y)
	t := x.X.Type()
	under := t.Underlying()
	switch x.Op {
	case token.EQL, token.NEQ:
		var eq string
		if bt, ok := under.(*types.Basic); ok && bt.Info()&types.IsFloat != 0 {
			eq = app("fp.eq", a.(Sc).T, b.(Sc).T)
		} else if _, isIface := under.(*types.Interface); isIface {
			eq = vc.ifaceEq(x, a, b)
		} else {
			eq = eqSV(vc.coerceNil(a, b), vc.coerceNil(b, a))
		}
		if x.Op == token.NEQ {
			eq = sNot(eq)
		}
		return Sc{"Bool", eq}
	}
	bt, ok := under.(*types.Basic)
	if !ok {
		panic(unsupported("binop on " + t.String()))
	}
	at, btm := a.(Sc).T, b.(Sc).T
	switch {
	case bt.Info()&types.IsBoolean != 0:
		switch x.Op {
		case token.LAND, token.AND:
			return Sc{"Bool", sAnd(at, btm)}
		case token.LOR, token.OR:
			return Sc{"Bool", sOr(at, btm)}
		}
	case bt.Info()&types.IsInteger != 0:
		switch x.Op {
		case token.ADD:
			return Sc{"Int", vc.wrap(x.Type(), app("+", at, btm), reach, x.Pos())}
		case token.SUB:
			return Sc{"Int", vc.wrap(x.Type(), app("-", at, btm), reach, x.Pos())}
		case token.MUL:
			return Sc{"Int", vc.wrap(x.Type(), app("*", at, btm), reach, x.Pos())}
		case token.QUO:
			vc.safety("div", reach, sNot(sEq(btm, "0")), x.Pos())
			return Sc{"Int", app("godiv", at, btm)}
		case token.REM:
			vc.safety("div", reach, sNot(sEq(btm, "0")), x.Pos())
			return Sc{"Int", app("gomod", at, btm)}
		case token.LSS:
			return Sc{"Bool", app("<", at, btm)}
		case token.LEQ:
			return Sc{"Bool", app("<=", at, btm)}
		case token.GTR:
			return Sc{"Bool", app(">", at, btm)}
		case token.GEQ:
			return Sc{"Bool", app(">=", at, btm)}
		case token.AND:
			return Sc{"Int", app("bitand", at, btm)}
		case token.OR:
			return Sc{"Int", app("bitor", at, btm)}
		case token.XOR:
			return Sc{"Int", app("bitxor", at, btm)}
		case token.SHL:
			return Sc{"Int", app("shl", at, btm)}
		case token.SHR:
			return Sc{"Int", app("shr", at, btm)}
		case token.AND_NOT:
			return Sc{"Int", app("-", at, app("bitand", at, btm))}
		}
	case bt.Info()&types.IsFloat != 0:
		switch x.Op {
		case token.ADD:
			return Sc{"F", app("fp.add", "RNE", at, btm)}
		case token.SUB:
			return Sc{"F", app("fp.sub", "RNE", at, btm)}
		case token.MUL:
			return Sc{"F", app("fp.mul", "RNE", at, btm)}
		case token.QUO:
			return Sc{"F", app("fp.div", "RNE", at, btm)}
		case token.LSS:
			return Sc{"Bool", app("fp.lt", at, btm)}
		case token.LEQ:
			return Sc{"Bool", app("fp.leq", at, btm)}
		case token.GTR:
			return Sc{"Bool", app("fp.gt", at, btm)}
		case token.GEQ:
			return Sc{"Bool", app("fp.geq", at, btm)}
		}
	case bt.Info()&types.IsString != 0:
		switch x.Op {
		case token.ADD:
			return Sc{"Str", app("sconcat", at, btm)}
		case token.LSS:
			return Sc{"Bool", app("slt", at, btm)}
		case token.GTR:
			return Sc{"Bool", app("slt", btm, at)}
		case token.LEQ:
			return Sc{"Bool", sNot(app("slt", btm, at))}
		case token.GEQ:
			return Sc{"Bool", sNot(app("slt", at, btm))}
		}
	}
	panic(unsupported(fmt.Sprintf("binop %s on %s", x.Op, t)))
}

// coerceNil: comparisons like p == nil where nil is an untyped constant already typed by SSA.
func (vc *VC) coerceNil(a, other SV) SV { return a }

func (vc *VC) ifaceEq(x *ssa.BinOp, a, b SV) string {
	return sEq(a.(Sc).T, b.(Sc).T)
}

func (vc *VC) unop(x *ssa.UnOp, st *State, reach string) SV {
	switch x.Op {
	case token.NOT:
		return Sc{"Bool", sNot(vc.val(x.X).(Sc).T)}
	case token.SUB:
		v := vc.val(x.X).(Sc)
		if v.S == "F" {
			return Sc{"F", app("fp.neg", v.T)}
		}
		return Sc{"Int", vc.wrap(x.Type(), app("-", v.T), reach, x.Pos())}
	case token.XOR:
		v := vc.val(x.X).(Sc)
		if isUnsigned(x.Type()) {
			_, hi, _ := intRange(x.Type())
			return Sc{"Int", app("-", hi, v.T)}
		}
		return Sc{"Int", app("-", app("-", v.T), "1")}
	case token.MUL:
		return vc.load(vc.val(x.X), x.Type(), st, reach, x.Pos())
	case token.ARROW:
		return vc.chanRecv(x, st, reach)
	}
	panic(unsupported("unop " + x.Op.String()))
}

func (vc *VC) convert(x *ssa.Convert, st *State, reach string) SV {
	from, to := x.X.Type().Underlying(), x.Type().Underlying()
	v := vc.val(x.X)
	fb, fok := from.(*types.Basic)
	tb, tok := to.(*types.Basic)
	if fok && tok {
		switch {
		case fb.Info()&types.IsInteger != 0 && tb.Info()&types.IsInteger != 0:
			flo, fhi, _ := intRange(from)
			tlo, thi, _ := intRange(to)
			_ = flo
			_ = fhi
			t := v.(Sc).T
			if vc.con != nil && vc.con.Overflow {
				vc.safety("conv", reach, sAnd(app("<=", tlo, t), app("<=", t, thi)), x.Pos())
				return Sc{"Int", t}
			}
			if rangeWithin(from, to) {
				return Sc{"Int", t}
			}
			// wrap-around semantics
			width := intWidth(to)
			mod := pow2(width)
			if isUnsigned(to) {
				return Sc{"Int", app("mod", t, mod)}
			}
			half := pow2(width - 1)
			return Sc{"Int", app("-", app("mod", app("+", t, half), mod), half)}
		case fb.Info()&types.IsInteger != 0 && tb.Info()&types.IsFloat != 0:
			return Sc{"F", app("i2f", v.(Sc).T)}
		case fb.Info()&types.IsFloat != 0 && tb.Info()&types.IsInteger != 0:
			r := vc.define("f2i", "Int", app("f2i", v.(Sc).T))
			lo, hi, _ := intRange(to)
			vc.assume("true", sAnd(app("<=", lo, r), app("<=", r, hi)))
			return Sc{"Int", r}
		case fb.Info()&types.IsFloat != 0 && tb.Info()&types.IsFloat != 0:
			return v
		case fb.Info()&types.IsString != 0 && tb.Info()&types.IsString != 0:
			return v
		case fb.Info()&types.IsInteger != 0 && tb.Info()&types.IsString != 0:
			vc.declareFun("cp2str", []string{"Int"}, "Str")
			return Sc{"Str", app("cp2str", v.(Sc).T)}
		}
	}
	// string <-> []byte / []rune
	if _, ok := to.(*types.Slice); ok && fok && fb.Info()&types.IsString != 0 {
		elem := to.(*types.Slice).Elem()
		s := v.(Sc).T
		fn := "str2" + typeName(elem)
		vc.declareFun(fn, []string{"Str"}, rowSort("Int"))
		lenfn := fn + ".len"
		vc.declareFun(lenfn, []string{"Str"}, "Int")
		ref := vc.bumpAlloc(st)
		n := vc.define("n", "Int", app(lenfn, s))
		vc.assume("true", app("<=", "0", n))
		if b, ok := elem.Underlying().(*types.Basic); ok && b.Kind() == types.Uint8 {
			vc.assume("true", sEq(n, app("slen", s)))
		} else {
			vc.assume("true", app("<=", n, app("slen", s)))
			vc.assume("true", app("=>", app(">", app("slen", s), "0"), app(">", n, "0")))
		}
		name := hsName(elem, 0)
		h := vc.get(st, name, heapSort("Int"))
		vc.set(st, name, heapSort("Int"), vc.define("H", heapSort("Int"), app("store", h, ref, app(fn, s))))
		return Sl{Ref: ref, Off: "0", Len: n, Cap: n, Elem: elem}
	}
	if sl, ok := from.(*types.Slice); ok && tok && tb.Info()&types.IsString != 0 {
		s := v.(Sl)
		fn := typeName(sl.Elem()) + "2str"
		vc.declareFun(fn, []string{rowSort("Int"), "Int", "Int"}, "Str")
		h := vc.get(st, hsName(sl.Elem(), 0), heapSort("Int"))
		r := app(fn, app("select", h, s.Ref), s.Off, s.Len)
		if b, ok := sl.Elem().Underlying().(*types.Basic); ok && b.Kind() == types.Uint8 {
			r = vc.define("str", "Str", r)
			vc.assume("true", sEq(app("slen", r), s.Len))
		}
		return Sc{"Str", r}
	}
	if _, ok := to.(*types.Pointer); ok {
		return v
	}
	panic(unsupported(fmt.Sprintf("conversion %s -> %s", x.X.Type(), x.Type())))
}

func intWidth(t types.Type) int {
	b := t.Underlying().(*types.Basic)
	switch b.Kind() {
	case types.Int8, types.Uint8:
		return 8
	case types.Int16, types.Uint16:
		return 16
	case types.Int32, types.Uint32:
		return 32
	}
	return 64
}

func pow2(n int) string {
	r := "1"
	// decimal doubling
	for i := 0; i < n; i++ {
		r = decDouble(r)
	}
	return r
}

func decDouble(s string) string {
	carry := 0
	out := make([]byte, 0, len(s)+1)
	for i := len(s) - 1; i >= 0; i-- {
		d := int(s[i]-'0')*2 + carry
		out = append(out, byte('0'+d%10))
		carry = d / 10
	}
	if carry > 0 {
		out = append(out, byte('0'+carry))
	}
	for i, j := 0, len(out)-1; i < j; i, j = i+1, j-1 {
		out[i], out[j] = out[j], out[i]
	}
	return string(out)
}

func rangeWithin(from, to types.Type) bool {
	fw, tw := intWidth(from), intWidth(to)
	fu, tu := isUnsigned(from), isUnsigned(to)
	switch {
	case fu == tu:
		return fw <= tw
	case fu && !tu:
		return fw < tw
	}
	return false
}

// ---- memory -----------------------------------------------------------------------------------

func (vc *VC) alloc(x *ssa.Alloc, st *State) {
	elem := x.Type().(*types.Pointer).Elem()
	if !x.Heap {
		st.locals[x] = zeroSV(elem)
		if vc.dry > 0 {
			vc.wlocal[x] = true
		}
		vc.vals[x] = Pt{Kind: "local", Local: x, Elem: elem}
		return
	}
	ref := vc.bumpAlloc(st)
	if arr, ok := elem.Underlying().(*types.Array); ok {
		// new [k]T: a row of the slice heap
		n := sInt(arr.Len())
		sl := Sl{Ref: ref, Off: "0", Len: n, Cap: n, Elem: arr.Elem()}
		vc.zeroRow(st, sl)
		vc.vals[x] = sl
		return
	}
	p := Pt{Kind: "heap", Ref: ref, Elem: elem, Root: elem}
	vc.writeHeapPtr(st, p, zeroSV(elem))
	vc.vals[x] = p
}

func constArray(sort, v string) string {
	switch sort {
	case "Val":
		return "zeroRowV" // prelude constant: all-nil row (cvc5 rejects `as const` with an uninterpreted constant)
	case "Str":
		return "zeroRowS"
	case "Fn":
		return "zeroRowFn"
	}
	return fmt.Sprintf("((as const (Array Int %s)) %s)", sort, v)
}

func (vc *VC) zeroRow(st *State, sl Sl) {
	for i, s := range sortsOf(sl.Elem) {
		name := hsName(sl.Elem, i)
		h := vc.get(st, name, heapSort(s))
		vc.set(st, name, heapSort(s), vc.define("H", heapSort(s), app("store", h, sl.Ref, constArray(s, zeroLeaf(s)))))
	}
}

func (vc *VC) nilCheck(p Pt, reach string, pos token.Pos) {
	if p.Kind == "heap" {
		vc.safety("nil", reach, sNot(sEq(p.Ref, "0")), pos)
	}
}

func (vc *VC) load(pv SV, t types.Type, st *State, reach string, pos token.Pos) SV {
	switch p := pv.(type) {
	case Pt:
		switch p.Kind {
		case "local":
			cell, ok := st.locals[p.Local]
			if !ok {
				panic(unsupported("load from unknown local"))
			}
			return getPath(cell, p.Path)
		case "global":
			cell, ok := st.locals[p.Local]
			if !ok {
				g := p.Local.(*ssa.Global)
				cell = vc.globalInit(g, st)
				st.locals[p.Local] = cell
			}
			vc.guardLoad(p, st, reach, pos)
			return getPath(cell, p.Path)
		case "elem":
			v := getPath(vc.readElem(st, *p.Sl, p.Idx), p.Path)
			vc.assumeType(reach, t, v, st)
			return v
		case "heap":
			vc.nilCheck(p, reach, pos)
			v := vc.readHeapPtr(st, p)
			vc.assumeType(reach, t, v, st)
			vc.guardLoad(p, st, reach, pos)
			vc.loadHook(p, v, st, reach, pos)
			return v
		}
	case Sl:
		// *[k]T value load: not supported
	}
	panic(unsupported("load through this pointer shape"))
}

func (vc *VC) globalInit(g *ssa.Global, st *State) SV {
	elem := g.Type().(*types.Pointer).Elem()
	name := "glob." + sanitize(pkgKey(g.Pkg.Pkg)+"."+g.Name())
	sorts := sortsOf(elem)
	names := leafNames(elem)
	ls := make([]string, len(sorts))
	for i, s := range sorts {
		n := name
		if names[i] != "" {
			n += "." + names[i]
		}
		vc.declare(n, s)
		ls[i] = n
	}
	v := mkSV(elem, ls)
	vc.assumeType("true", elem, v, vc.st0)
	gk := pkgKey(g.Pkg.Pkg) + "." + g.Name()
	if facts := vc.eng.CS.GlobalFacts[gk]; len(facts) > 0 && vc.eng.globalIsConstant(g) {
		env := vc.newEnv(vc.st0, vc.st0, nil)
		env.local = false
		env.pkg = pkgKey(g.Pkg.Pkg)
		env.vars[g.Name()] = v
		for _, f := range facts {
			vc.assume("true", vc.evalBool(env, f))
		}
		vc.eng.note("package-level variable " + gk + ": assumed to hold its initial value (no store outside init was found) as described by its globalfact")
	} else {
		vc.eng.note("package-level variable " + gk + " read as an arbitrary but fixed value")
	}
	return v
}

func (vc *VC) store(pv SV, v SV, st *State, reach string, pos token.Pos) {
	p, ok := pv.(Pt)
	if !ok {
		panic(unsupported("store through non-pointer"))
	}
	switch p.Kind {
	case "local", "global":
		cell, ok := st.locals[p.Local]
		if !ok {
			if g, isG := p.Local.(*ssa.Global); isG {
				cell = vc.globalInit(g, st)
			} else {
				panic(unsupported("store to unknown local"))
			}
		}
		st.locals[p.Local] = setPath(cell, p.Path, v)
		if vc.dry > 0 {
			vc.wlocal[p.Local] = true
		}
		if p.Kind == "global" {
			vc.eng.note("store to package-level variable in " + vc.key)
		}
	case "elem":
		if len(p.Path) > 0 {
			v = setPath(vc.readElem(st, *p.Sl, p.Idx), p.Path, v)
		}
		vc.writeElem(st, *p.Sl, p.Idx, v)
	case "heap":
		vc.nilCheck(p, reach, pos)
		vc.writeHeapPtr(st, p, v)
	default:
		panic(unsupported("store through pointer kind " + p.Kind))
	}
}

func (vc *VC) fieldAddr(x *ssa.FieldAddr, st *State, reach string) SV {
	p, ok := vc.val(x.X).(Pt)
	if !ok {
		panic(unsupported("FieldAddr on non-pointer"))
	}
	stt := x.X.Type().Underlying().(*types.Pointer).Elem().Underlying().(*types.Struct)
	np := p
	np.Path = append(append([]int(nil), p.Path...), x.Field)
	np.Elem = stt.Field(x.Field).Type()
	if p.Kind == "heap" {
		vc.nilCheck(p, reach, x.Pos())
	}
	return np
}

func (vc *VC) indexAddr(x *ssa.IndexAddr, st *State, reach string) SV {
	base := vc.val(x.X)
	idx := vc.val(x.Index).(Sc).T
	switch s := base.(type) {
	case Sl:
		if !(idx == "0" && s.Len != "0" && !strings.Contains(s.Len, " ") && s.Len != "" && isPosNumeral(s.Len)) {
			vc.safety("index", reach, sAnd(app("<=", "0", idx), app("<", idx, s.Len)), x.Pos())
		}
		// w-c04: name compound index terms, so that the element term reads (select row (+ off ix!n)) and
		// E-matching can bind a quantified index k of a pattern (select row (+ off k)) to it (the solvers
		// flatten (+ off (+ i 1)) and then nothing matches)
		if strings.Contains(idx, " ") {
			idx = vc.define("ix", "Int", idx)
		}
		sc := s
		return Pt{Kind: "elem", Sl: &sc, Idx: idx, Elem: s.Elem}
	case Pt:
		// pointer to a fixed-size array held in a local / heap struct: constant indices only
		if arr, ok := s.Elem.Underlying().(*types.Array); ok && arr.Len() <= 8 {
			if k, isNum := parseIntVal(idx); isNum && k >= 0 && k < arr.Len() {
				np := s
				np.Path = append(append([]int(nil), s.Path...), int(k))
				np.Elem = arr.Elem()
				return np
			}
		}
		panic(unsupported("IndexAddr on pointer to array with a non-constant index"))
	}
	panic(unsupported("IndexAddr base"))
}

func isPosNumeral(s string) bool {
	if s == "" || s == "0" {
		return false
	}
	for _, c := range s {
		if c < '0' || c > '9' {
			return false
		}
	}
	return true
}

func (vc *VC) index(x *ssa.Index, st *State, reach string) SV {
	base := vc.val(x.X)
	idx := vc.val(x.Index).(Sc).T
	if s, ok := base.(Sc); ok && s.S == "Str" {
		vc.safety("index", reach, sAnd(app("<=", "0", idx), app("<", idx, app("slen", s.T))), x.Pos())
		return Sc{"Int", app("sat", s.T, idx)}
	}
	panic(unsupported("Index on " + x.X.Type().String()))
}

func (vc *VC) slice(x *ssa.Slice, st *State, reach string) SV {
	base := vc.val(x.X)
	var lo, hi, max string
	if x.Low != nil {
		lo = vc.val(x.Low).(Sc).T
	}
	if x.High != nil {
		hi = vc.val(x.High).(Sc).T
	}
	if x.Max != nil {
		max = vc.val(x.Max).(Sc).T
	}
	switch s := base.(type) {
	case Sl:
		if lo == "" {
			lo = "0"
		}
		if hi == "" {
			hi = s.Len
		}
		capLimit := s.Cap
		if max != "" {
			vc.safety("slice", reach, sAnd(app("<=", "0", lo), app("<=", lo, hi), app("<=", hi, max), app("<=", max, s.Cap)), x.Pos())
			capLimit = max
		} else if !(lo == "0" && hi == s.Len) {
			vc.safety("slice", reach, sAnd(app("<=", "0", lo), app("<=", lo, hi), app("<=", hi, s.Cap)), x.Pos())
		}
		return Sl{Ref: s.Ref, Off: simplAdd(s.Off, lo), Len: simplSub(hi, lo), Cap: simplSub(capLimit, lo), Elem: s.Elem}
	case Sc:
		if s.S == "Str" {
			if lo == "" {
				lo = "0"
			}
			if hi == "" {
				hi = app("slen", s.T)
			}
			vc.safety("slice", reach, sAnd(app("<=", "0", lo), app("<=", lo, hi), app("<=", hi, app("slen", s.T))), x.Pos())
			return Sc{"Str", app("ssub", s.T, lo, hi)}
		}
	}
	panic(unsupported("Slice of " + x.X.Type().String()))
}

func simplAdd(a, b string) string {
	if a == "0" {
		return b
	}
	if b == "0" {
		return a
	}
	return app("+", a, b)
}

func simplSub(a, b string) string {
	if b == "0" {
		return a
	}
	if a == b {
		return "0"
	}
	return app("-", a, b)
}

func (vc *VC) makeSlice(x *ssa.MakeSlice, st *State, reach string) SV {
	elem := x.Type().Underlying().(*types.Slice).Elem()
	n := vc.val(x.Len).(Sc).T
	c := vc.val(x.Cap).(Sc).T
	vc.safety("make", reach, sAnd(app("<=", "0", n), app("<=", n, c)), x.Pos())
	ref := vc.bumpAlloc(st)
	sl := Sl{Ref: ref, Off: "0", Len: n, Cap: c, Elem: elem}
	vc.zeroRow(st, sl)
	return sl
}

// ---- interfaces -------------------------------------------------------------------------------

func (vc *VC) mkFn(t types.Type) (string, []string, []string) {
	tn := typeName(t)
	sorts := sortsOf(t)
	names := leafNames(t)
	mk := "mk." + tn
	inPrelude := vc.eng.Prelude.bySym[mk] != nil
	if !inPrelude {
		vc.declareFun(mk, sorts, "Val")
	}
	projs := make([]string, len(sorts))
	for i, s := range sorts {
		p := "pj." + tn + "." + fmt.Sprint(i)
		if names[i] != "" {
			p += "." + names[i]
		}
		if !inPrelude {
			vc.declareFun(p, []string{"Val"}, s)
		}
		projs[i] = p
	}
	return mk, projs, sorts
}

func (vc *VC) makeInterface(t types.Type, v SV) SV {
	if _, ok := t.Underlying().(*types.Interface); ok {
		return v
	}
	mk, projs, _ := vc.mkFn(t)
	ls := toLeaves(v)
	term := app(mk, ls...)
	if len(ls) == 0 {
		term = mk
	}
	if vc.noFacts > 0 {
		// inside a quantified specification: the prelude's boxing axioms apply, no ground facts
		return Sc{"Val", term}
	}
	b := vc.define("box", "Val", term)
	tag := vc.eng.tagOf(t)
	vc.assume("true", sEq(app("tagof", b), sInt(int64(tag))))
	for i, p := range projs {
		vc.assume("true", sEq(app(p, b), ls[i]))
	}
	return Sc{"Val", b}
}

// unbox returns the concrete value inside interface value v, assuming its tag is t's.
func (vc *VC) unbox(t types.Type, v string, st *State, guard string) SV {
	mk, projs, _ := vc.mkFn(t)
	ls := make([]string, len(projs))
	for i, p := range projs {
		ls[i] = app(p, v)
	}
	tag := vc.eng.tagOf(t)
	isT := sEq(app("tagof", v), sInt(int64(tag)))
	re := mk
	if len(ls) > 0 {
		re = app(mk, ls...)
	}
	sv := mkSV(t, ls)
	if vc.noFacts > 0 {
		return sv
	}
	vc.assume("true", sImp(isT, sEq(v, re)))
	for _, f := range vc.typeFacts(t, sv, st) {
		vc.assume(sAnd(guard, isT), f)
	}
	return sv
}

func (vc *VC) implPred(iface types.Type) string {
	name := "impl." + typeName(iface)
	if !vc.decl[name] {
		vc.declareFun(name, []string{"Int"}, "Bool")
		it := iface.Underlying().(*types.Interface)
		vc.emit(fmt.Sprintf("(assert (not (%s 0)))", name))
		for i, t := range vc.eng.TagTypes {
			if types.Implements(t, it) {
				vc.emit(fmt.Sprintf("(assert (%s %d))", name, i+1))
			} else {
				vc.emit(fmt.Sprintf("(assert (not (%s %d)))", name, i+1))
			}
		}
	}
	return name
}

func (vc *VC) typeAssert(x *ssa.TypeAssert, st *State, reach string) SV {
	v := vc.val(x.X).(Sc).T
	at := x.AssertedType
	var ok string
	var res SV
	if _, isIface := at.Underlying().(*types.Interface); isIface {
		it := at.Underlying().(*types.Interface)
		if it.NumMethods() == 0 {
			ok = sNot(sEq(v, "nilVal"))
		} else {
			ok = app(vc.implPred(at), app("tagof", v))
		}
		res = Sc{"Val", v}
	} else {
		tag := vc.eng.tagOf(at)
		ok = sEq(app("tagof", v), sInt(int64(tag)))
		res = vc.unbox(at, v, st, reach)
	}
	if x.CommaOk {
		okc := vc.define("ok", "Bool", ok)
		// when the assertion fails the value is the zero value
		z := zeroSV(at)
		if _, isIface := at.Underlying().(*types.Interface); isIface {
			z = Sc{"Val", "nilVal"}
		}
		r := iteSV(at, okc, res, z)
		return St{Typ: x.Type(), F: []SV{r, Sc{"Bool", okc}}}
	}
	vc.safety("assert", reach, ok, x.Pos())
	vc.assume(reach, ok)
	return res
}
