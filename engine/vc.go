package main

// Verification-condition generation: forward symbolic execution of go/ssa with loops cut at
// their headers (invariants), calls replaced by contracts, and a block-predicate encoding.

import (
	"fmt"
	"go/token"
	"go/types"
	"sort"
	"strings"

	"golang.org/x/tools/go/ssa"
)

type Obligation struct {
	Name   string
	Kind   string // post pre inv.init inv.step dec safe.* frame lemma refine
	Func   string
	Props  []string
	Prefix int      // number of script lines visible
	Extra  []string // obligation-local declarations
	Guard  string
	Goal   string
	Pos    string
	Text   string // source text of the clause, if any
	// filled by the solver
	Status  string // unsat sat unknown timeout trivial error
	Backend string
	Secs    float64
	Output  string
	Script  *[]string // the script this obligation indexes into
	Bounded bool
	ModelQ  []string // terms to evaluate in a model
	sibling *Obligation
	vc      *VC
	ResultSVs []SV // post obligations: the symbolic results of the return the clause is checked at
	Regioned   bool   // sibling of a known finding: the same obligation restricted to inputs outside the finding's region
	Model      map[string]string
	Replayed   bool
	ReplayInfo map[string]interface{}
}

type State struct {
	vars   map[string]string
	locals map[interface{}]SV
	epoch  int
}

func (s *State) clone() *State {
	n := &State{vars: map[string]string{}, locals: map[interface{}]SV{}, epoch: s.epoch}
	for k, v := range s.vars {
		n.vars[k] = v
	}
	for k, v := range s.locals {
		n.locals[k] = v
	}
	return n
}

type edge struct {
	from *ssa.BasicBlock
	cond string
	st   *State
}

type retEdge struct {
	cond string
	st   *State
	res  []SV
	pos  token.Pos
}

type VC struct {
	eng    *Engine
	fn     *ssa.Function
	con    *Contract
	key    string
	script []string
	decl   map[string]bool
	obls   []*Obligation
	nfresh int
	dry    int
	writes map[string]bool // in dry mode: state vars / locals written
	wlocal map[interface{}]bool

	vals    map[ssa.Value]SV
	reach   map[*ssa.BasicBlock]string
	edges   map[*ssa.BasicBlock][]edge // incoming, by target
	exitSt  map[*ssa.BasicBlock]*State
	rets    []retEdge
	st0     *State
	params  map[string]SV
	svSort  map[string]string
	ord     map[string]int // per-kind ordinals for obligation names
	loops   map[*ssa.BasicBlock]*loopInfo
	loopOrd []*ssa.BasicBlock
	backTo  map[*ssa.BasicBlock]map[*ssa.BasicBlock]bool // header -> set of back-edge sources
	rpo     []*ssa.BasicBlock
	failed  string // unsupported construct message
	callN   map[string]int
	strc    map[string]string
	curPos  token.Pos
	decAt   map[*ssa.BasicBlock][]string
	tagUsed map[int]bool
	implUsed map[string]bool
	epochN  int
	regions map[string]string
	curBind map[string]ssa.Value // bindings of the closure being called (closurefv.go)
	curTerms map[string]SV       // captproj.go (x-c17): captured-variable terms at a call through a fnfield
	defers   []*ssa.Defer        // captproj.go (x-c17): deferred contracted literals, in registration order
	noFacts int // >0 while evaluating under a specification quantifier: emit no ground facts
	lastShape   map[string]SV                   // effects.go: shapes of the arguments recorded for lastcall()
	inlining    int                             // tolerant.go: >0 while a contract-less leaf helper is executed in place
	hdr         map[*ssa.BasicBlock]*headerSnap // effects.go: state at loop headers (for prev())
	iterChecked map[*Clause]bool                 // effects.go: `loop k ensures` clauses checked at some back edge
}

type loopInfo struct {
	header *ssa.BasicBlock
	body   map[*ssa.BasicBlock]bool
	index  int
}

func (vc *VC) emit(line string) { vc.script = append(vc.script, line) }

func (vc *VC) declare(name, sort string) {
	if vc.decl[name] {
		return
	}
	vc.decl[name] = true
	vc.emit(fmt.Sprintf("(declare-fun %s () %s)", name, sort))
}

func (vc *VC) declareFun(name string, args []string, ret string) {
	if vc.decl[name] {
		return
	}
	vc.decl[name] = true
	if vc.eng.Prelude != nil && vc.eng.Prelude.bySym[name] != nil {
		return // a specs/*.smt2 file declares (and may axiomatise) this model function; the slicer emits it
	}
	vc.emit(fmt.Sprintf("(declare-fun %s (%s) %s)", name, strings.Join(args, " "), ret))
}

func (vc *VC) fresh(prefix, sort string) string {
	vc.nfresh++
	n := fmt.Sprintf("%s!%d", sanitize(prefix), vc.nfresh)
	vc.declare(n, sort)
	return n
}

func (vc *VC) assume(guard, fact string) {
	if fact == "true" {
		return
	}
	vc.emit("(assert " + sImp(guard, fact) + ")")
}

func (vc *VC) define(prefix, sort, term string) string {
	// avoid defining trivially small terms
	if !strings.Contains(term, " ") {
		return term
	}
	n := vc.fresh(prefix, sort)
	vc.emit(fmt.Sprintf("(assert (= %s %s))", n, term))
	return n
}

func (vc *VC) freshSV(prefix string, t types.Type) SV {
	sorts := sortsOf(t)
	names := leafNames(t)
	ls := make([]string, len(sorts))
	for i, s := range sorts {
		p := prefix
		if names[i] != "" {
			p += "." + names[i]
		}
		ls[i] = vc.fresh(p, s)
	}
	return mkSV(t, ls)
}

// ---- state variables --------------------------------------------------------------------------

func (vc *VC) stateSym(name string, epoch int) string {
	return sanitize(name) + fmt.Sprintf("!e%d", epoch)
}

func (vc *VC) get(st *State, name, sort string) string {
	if t, ok := st.vars[name]; ok {
		return t
	}
	if old, ok := vc.svSort[name]; ok && old != sort {
		panic(fmt.Sprintf("state var %s used at sorts %s and %s", name, old, sort))
	}
	vc.svSort[name] = sort
	sym := vc.stateSym(name, st.epoch)
	vc.declare(sym, sort)
	return sym
}

func (vc *VC) set(st *State, name, sort, term string) {
	vc.svSort[name] = sort
	if vc.dry > 0 {
		vc.writes[name] = true
	}
	st.vars[name] = term
}

func (vc *VC) havocAll(st *State) {
	vc.epochN++
	st.epoch = vc.epochN
	old := st.vars["alloc"]
	if old == "" {
		old = vc.get(st, "alloc", "Int")
	}
	st.vars = map[string]string{}
	na := vc.get(st, "alloc", "Int")
	vc.assume("true", app("<=", old, na))
	if vc.dry > 0 {
		vc.writes["*"] = true
	}
}

func (vc *VC) allocTerm(st *State) string { return vc.get(st, "alloc", "Int") }

func (vc *VC) bumpAlloc(st *State) string {
	a := vc.allocTerm(st)
	vc.set(st, "alloc", "Int", vc.define("alloc", "Int", app("+", a, "1")))
	return a
}

// heap names
func hsName(elem types.Type, leaf int) string {
	return fmt.Sprintf("HS|%s|%d", typeName(elem), leaf)
}
func hfName(root types.Type, leaf int) string {
	return fmt.Sprintf("HF|%s|%d", typeName(root), leaf)
}

func rowSort(s string) string  { return "(Array Int " + s + ")" }
func heapSort(s string) string { return "(Array Int (Array Int " + s + "))" }

// readElem reads slice element idx (relative to slice start).
func (vc *VC) readElem(st *State, sl Sl, idx string) SV {
	sorts := sortsOf(sl.Elem)
	ls := make([]string, len(sorts))
	for i, s := range sorts {
		h := vc.get(st, hsName(sl.Elem, i), heapSort(s))
		ls[i] = app("select", app("select", h, sl.Ref), app("+", sl.Off, idx))
	}
	return mkSV(sl.Elem, ls)
}

func (vc *VC) writeElem(st *State, sl Sl, idx string, v SV) {
	sorts := sortsOf(sl.Elem)
	ls := toLeaves(v)
	for i, s := range sorts {
		name := hsName(sl.Elem, i)
		h := vc.get(st, name, heapSort(s))
		nh := app("store", h, sl.Ref, app("store", app("select", h, sl.Ref), app("+", sl.Off, idx), ls[i]))
		vc.set(st, name, heapSort(s), vc.define("H", heapSort(s), nh))
	}
}

// offset of a field path within the leaves of root, and the type at the path.
func pathLeaf(root types.Type, path []int) (int, types.Type) {
	off := 0
	t := root
	for _, p := range path {
		st := t.Underlying().(*types.Struct)
		for i := 0; i < p; i++ {
			off += len(sortsOf(st.Field(i).Type()))
		}
		t = st.Field(p).Type()
	}
	return off, t
}

func (vc *VC) readHeapPtr(st *State, p Pt) SV {
	off, t := pathLeaf(p.Root, p.Path)
	sorts := sortsOf(t)
	ls := make([]string, len(sorts))
	for i, s := range sorts {
		h := vc.get(st, hfName(p.Root, off+i), rowSort(s))
		ls[i] = app("select", h, p.Ref)
	}
	return mkSV(t, ls)
}

func (vc *VC) writeHeapPtr(st *State, p Pt, v SV) {
	off, t := pathLeaf(p.Root, p.Path)
	sorts := sortsOf(t)
	ls := toLeaves(v)
	for i, s := range sorts {
		name := hfName(p.Root, off+i)
		h := vc.get(st, name, rowSort(s))
		vc.set(st, name, rowSort(s), vc.define("HF", rowSort(s), app("store", h, p.Ref, ls[i])))
	}
}

// getPath / setPath on struct SVs for local pointers
func getPath(v SV, path []int) SV {
	for _, p := range path {
		v = v.(St).F[p]
	}
	return v
}

func setPath(v SV, path []int, nv SV) SV {
	if len(path) == 0 {
		return nv
	}
	st := v.(St)
	nf := make([]SV, len(st.F))
	copy(nf, st.F)
	nf[path[0]] = setPath(st.F[path[0]], path[1:], nv)
	return St{Typ: st.Typ, F: nf}
}

// typeFacts: range / well-formedness facts for a value of Go type t.
func (vc *VC) typeFacts(t types.Type, v SV, st *State) []string {
	var out []string
	switch u := t.Underlying().(type) {
	case *types.Basic:
		if lo, hi, ok := intRange(t); ok {
			x := v.(Sc).T
			out = append(out, app("<=", lo, x), app("<=", x, hi))
		}
	case *types.Slice:
		s := v.(Sl)
		out = append(out, app("<=", "0", s.Ref), app("<", s.Ref, vc.allocTerm(st)), app("<=", "0", s.Off),
			app("<=", "0", s.Len), app("<=", s.Len, s.Cap),
			app("=>", app("=", s.Ref, "0"), app("=", s.Cap, "0")))
	case *types.Pointer, *types.Map, *types.Chan:
		var r string
		switch x := v.(type) {
		case Pt:
			if x.Kind != "heap" {
				return nil
			}
			r = x.Ref
		case Sc:
			r = x.T
		default:
			return nil
		}
		out = append(out, app("<=", "0", r), app("<", r, vc.allocTerm(st)))
	case *types.Struct:
		s, ok := v.(St)
		if !ok {
			return nil
		}
		for i := 0; i < u.NumFields(); i++ {
			out = append(out, vc.typeFacts(u.Field(i).Type(), s.F[i], st)...)
		}
	case *types.Tuple:
		s := v.(St)
		for i := 0; i < u.Len(); i++ {
			out = append(out, vc.typeFacts(u.At(i).Type(), s.F[i], st)...)
		}
	case *types.Array:
		if s, ok := v.(St); ok {
			for i := range s.F {
				out = append(out, vc.typeFacts(u.Elem(), s.F[i], st)...)
			}
		}
	}
	return out
}

func (vc *VC) assumeType(guard string, t types.Type, v SV, st *State) {
	for _, f := range vc.typeFacts(t, v, st) {
		vc.assume(guard, f)
	}
}

// ---- obligations ------------------------------------------------------------------------------

func (vc *VC) posStr(p token.Pos) string {
	if !p.IsValid() {
		p = vc.curPos
	}
	if !p.IsValid() {
		return ""
	}
	pos := vc.eng.Prog.Fset.Position(p)
	return fmt.Sprintf("%s:%d", strings.TrimPrefix(pos.Filename, vc.eng.RepoDir+"/"), pos.Line)
}

func (vc *VC) oblige(kind, name string, props []string, guard, goal, text string, pos token.Pos) *Obligation {
	if vc.dry > 0 {
		return nil
	}
	if len(props) == 0 && vc.con != nil {
		props = vc.con.Tags
		if len(props) == 0 {
			props = vc.con.Props
		}
	}
	o := &Obligation{Name: vc.key + "/" + name, Kind: kind, Func: vc.key, Props: props, Prefix: len(vc.script),
		Guard: guard, Goal: goal, Pos: vc.posStr(pos), Text: text, vc: vc}
	vc.obls = append(vc.obls, o)
	if rg, ok := vc.regions[normOrd(o.Name)]; ok {
		sib := *o
		sib.Name = o.Name + "|outside-region"
		sib.Regioned = true
		sib.Extra = append(append([]string(nil), o.Extra...), "(assert (not "+rg+"))")
		sib.Text = text + "   [restricted to inputs outside the known finding's region]"
		vc.obls = append(vc.obls, &sib)
		o.sibling = &sib
	}
	return o
}

func (vc *VC) safety(kind string, guard, goal string, pos token.Pos) {
	if vc.dry > 0 {
		return
	}
	n := vc.ord[kind]
	vc.ord[kind] = n + 1
	var props []string
	if vc.con != nil {
		props = vc.con.Tags
	}
	vc.oblige("safe."+kind, fmt.Sprintf("safe.%s#%d", kind, n), props, guard, goal, "", pos)
}

// ---- CFG analysis -----------------------------------------------------------------------------

func (vc *VC) analyseCFG() {
	fn := vc.fn
	vc.loops = map[*ssa.BasicBlock]*loopInfo{}
	vc.backTo = map[*ssa.BasicBlock]map[*ssa.BasicBlock]bool{}
	for _, b := range fn.Blocks {
		for _, s := range b.Succs {
			if s.Dominates(b) {
				if vc.backTo[s] == nil {
					vc.backTo[s] = map[*ssa.BasicBlock]bool{}
				}
				vc.backTo[s][b] = true
				li := vc.loops[s]
				if li == nil {
					li = &loopInfo{header: s, body: map[*ssa.BasicBlock]bool{s: true}}
					vc.loops[s] = li
				}
				// natural loop: nodes reaching b without passing through s
				var stack []*ssa.BasicBlock
				if !li.body[b] {
					li.body[b] = true
					stack = append(stack, b)
				}
				for len(stack) > 0 {
					x := stack[len(stack)-1]
					stack = stack[:len(stack)-1]
					for _, p := range x.Preds {
						if !li.body[p] {
							li.body[p] = true
							stack = append(stack, p)
						}
					}
				}
			}
		}
	}
	// loop ordinals: by source position of the header's first positioned instruction / block comment order.
	var hs []*ssa.BasicBlock
	for h := range vc.loops {
		hs = append(hs, h)
	}
	sort.Slice(hs, func(i, j int) bool {
		pi, pj := vc.loopPos(hs[i]), vc.loopPos(hs[j])
		if pi != pj {
			return pi < pj
		}
		return hs[i].Index < hs[j].Index
	})
	if p := getLoopPerm(vc.key); len(p) == len(hs) { // tolerant.go: loops reordered in the source
		nh := make([]*ssa.BasicBlock, len(hs))
		for i := range hs {
			nh[i] = hs[p[i]]
		}
		hs = nh
	}
	for i, h := range hs {
		vc.loops[h].index = i
	}
	vc.loopOrd = hs
	// reverse postorder ignoring back edges
	seen := map[*ssa.BasicBlock]bool{}
	var post []*ssa.BasicBlock
	var dfs func(b *ssa.BasicBlock)
	dfs = func(b *ssa.BasicBlock) {
		seen[b] = true
		for _, s := range b.Succs {
			if vc.backTo[s][b] {
				continue
			}
			if !seen[s] {
				dfs(s)
			}
		}
		post = append(post, b)
	}
	dfs(fn.Blocks[0])
	for i := len(post) - 1; i >= 0; i-- {
		vc.rpo = append(vc.rpo, post[i])
	}
}

// loopPos: smallest source position of any instruction in the loop (its for/range keyword comes first).
func (vc *VC) loopPos(h *ssa.BasicBlock) token.Pos {
	best := token.Pos(1 << 40)
	for b := range vc.loops[h].body {
		for _, in := range b.Instrs {
			if p := in.Pos(); p.IsValid() && p < best {
				best = p
			}
			if d, ok := in.(*ssa.DebugRef); ok {
				if p := d.Expr.Pos(); p.IsValid() && p < best {
					best = p
				}
			}
		}
	}
	return best
}
