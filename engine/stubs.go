package main

// `govc stubs [-tags Cxx] [-noassigns] <pkg,pkg,...> <repo-relative source file>...` (w-c10)
// Prints a thin contract stub (tags + assigns fresh-only + fnparam * pure [+ abstract defer]) for every
// function (anonymous ones included) declared in the given source files that has no contract yet.
// Development aid for the no-panic sweep (C10); hooked in through init() so that main.go is untouched.

import (
	"fmt"
	"os"
	"path/filepath"
	"sort"
	"strings"

	"go/types"

	"golang.org/x/tools/go/ssa"
)

// nilable: the spec-level kind of a type whose zero value is nil and that a well-formed caller never passes as nil
func nilable(t types.Type) bool {
	switch u := t.Underlying().(type) {
	case *types.Pointer:
		_, isStruct := u.Elem().Underlying().(*types.Struct)
		return isStruct
	case *types.Interface:
		if u.Empty() {
			return false
		}
		if n, ok := t.(*types.Named); ok && n.Obj().Pkg() != nil && (n.Obj().Pkg().Path() == "context" || n.Obj().Pkg().Path() == "fmt" || n.Obj().Name() == "error") {
			return false
		}
		if n, ok := t.(*types.Named); ok && n.Obj().Pkg() == nil {
			return false // error
		}
		return true
	case *types.Signature:
		return true
	}
	return false
}

// nonNilReqs: well-formedness preconditions — parameters (and the receiver's direct fields) of pointer-to-struct,
// non-empty interface or func type are not nil.
func nonNilReqs(fn *ssa.Function, names []string, isRecv bool) []string {
	var out []string
	fields := func(base string, st *types.Struct) {
		for i := 0; i < st.NumFields(); i++ {
			f := st.Field(i)
			if f.Embedded() || f.Name() == "_" {
				continue
			}
			if nilable(f.Type()) {
				out = append(out, base+"."+f.Name()+" != nil")
			}
		}
	}
	for i, p := range fn.Params {
		t := p.Type()
		if nilable(t) {
			out = append(out, names[i]+" != nil")
		}
		if i == 0 && isRecv {
			if pt, ok := t.Underlying().(*types.Pointer); ok {
				if st, ok := pt.Elem().Underlying().(*types.Struct); ok {
					fields(names[i], st)
				}
			} else if st, ok := t.Underlying().(*types.Struct); ok {
				fields(names[i], st)
			}
		}
	}
	return out
}

// writesRecv: the method stores to a field of its pointer receiver
func writesRecv(fn *ssa.Function) bool {
	if len(fn.Params) == 0 {
		return false
	}
	for _, b := range fn.Blocks {
		for _, in := range b.Instrs {
			if st, ok := in.(*ssa.Store); ok {
				if fa, ok := st.Addr.(*ssa.FieldAddr); ok && fa.X == ssa.Value(fn.Params[0]) {
					return true
				}
			}
		}
	}
	return false
}

func init() {
	if len(os.Args) < 4 || os.Args[1] != "stubs" {
		return
	}
	args := os.Args[2:]
	tags := "C10"
	assigns := true
	nonnil := false
	for len(args) > 0 && strings.HasPrefix(args[0], "-") {
		switch args[0] {
		case "-tags":
			tags = args[1]
			args = args[1:]
		case "-noassigns":
			assigns = false
		case "-nonnil":
			nonnil = true
		}
		args = args[1:]
	}
	e, err := Load(repoDir, verifDir, strings.Split(args[0], ","))
	if err != nil {
		fmt.Fprintln(os.Stderr, err)
		os.Exit(2)
	}
	want := map[string]bool{}
	for _, f := range args[1:] {
		want[filepath.Join(repoDir, f)] = true
	}
	type item struct {
		key  string
		fn   *ssa.Function
		file string
		line int
	}
	var items []item
	for k, fn := range e.Funcs {
		if len(fn.Blocks) == 0 || strings.HasSuffix(k, ".init") || strings.Contains(k, ".init#") {
			continue
		}
		p := e.Prog.Fset.Position(fn.Pos())
		if !want[p.Filename] {
			continue
		}
		items = append(items, item{k, fn, p.Filename, p.Line})
	}
	sort.Slice(items, func(i, j int) bool {
		if items[i].file != items[j].file {
			return items[i].file < items[j].file
		}
		if items[i].line != items[j].line {
			return items[i].line < items[j].line
		}
		return items[i].key < items[j].key
	})
	last := ""
	for _, it := range items {
		if it.file != last {
			rel, _ := filepath.Rel(repoDir, it.file)
			fmt.Printf("\n// ---- %s %s\n", rel, strings.Repeat("-", 80-len(rel)))
			last = it.file
		}
		if c := e.CS.Contracts[it.key]; c != nil {
			fmt.Printf("// (covered elsewhere: %s in %s)\n", it.key, filepath.Base(c.File))
			continue
		}
		fn := it.fn
		pk := pkgKey(nil)
		if fn.Pkg != nil {
			pk = pkgKey(fn.Pkg.Pkg)
		} else if fn.Parent() != nil {
			q := fn
			for q.Parent() != nil {
				q = q.Parent()
			}
			pk = pkgKey(q.Pkg.Pkg)
		}
		// header: strip the package qualifier of the own package
		head := it.key
		head = strings.Replace(head, "("+pk+".", "(", 1)
		head = strings.Replace(head, "(*"+pk+".", "(*", 1)
		head = strings.TrimPrefix(head, pk+".")
		var names []string
		seen := map[string]bool{}
		for i, p := range fn.Params {
			n := p.Name()
			if n == "" || n == "_" || seen[n] {
				n = fmt.Sprintf("p%d", i)
			}
			seen[n] = true
			names = append(names, n)
		}
		plist := strings.Join(names, ", ")
		if fn.Signature.Recv() != nil && fn.Parent() == nil && len(names) > 0 {
			plist = names[0] + ";"
			if len(names) > 1 {
				plist += " " + strings.Join(names[1:], ", ")
			}
		}
		fmt.Printf("\n//@ func %s(%s)\n//@   tags %s\n", head, plist, tags)
		if assigns {
			fmt.Printf("//@   assigns fresh-only\n")
		}
		fmt.Printf("//@   fnparam * pure\n")
		if nonnil {
			isRecv := fn.Signature.Recv() != nil && fn.Parent() == nil
			for _, r := range nonNilReqs(fn, names, isRecv) {
				fmt.Printf("//@   requires %s\n", r)
			}
			if isRecv && writesRecv(fn) {
				if pt, ok := fn.Params[0].Type().(*types.Pointer); ok {
					fmt.Printf("//@   modifies %s\n", typeKey(pt.Elem()))
				}
			}
		}
		hasDefer := false
		for _, b := range fn.Blocks {
			for _, in := range b.Instrs {
				if _, ok := in.(*ssa.Defer); ok {
					hasDefer = true
				}
			}
		}
		if hasDefer {
			fmt.Printf("//@   abstract defer\n")
		}
	}
	os.Exit(0)
}
