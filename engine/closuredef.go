package main

// Closure definitions (w-c01, properties C01/C02): linking a function literal's CONTRACT to the function
// VALUE that is handed to a higher-order callee (rel.Set.Where / Map through an interface call).
//
// Interface-level contracts of higher-order methods are stated over three prelude functions of the closure
// value (specs/35_sets.smt2):
//     holds(f, x)  the boolean result of f(x)         (predicates  func(Value) (bool, error))
//     fimg(f, x)   the value result of f(x)           (mappers     func(Value) (Value, error))
//     perr(f, x)   the error result of f(x)
// When a MakeClosure instruction creates a closure of a literal `Parent$N` whose contract has ensures
// clauses with a label starting with `def` (e.g. `ensures[C01] defholds: err == nil && ok == mem2(b, v)`),
// the parent may assume, at the creation point,
//     forall v: Val :: (requires of the literal) ==> clause[ result.0 := holds(f,v) | fimg(f,v), result.1 := perr(f,v) ]
// where f is the closure value and captured variables denote their content AT CREATION. The clause itself is
// verified in the literal's own VC like any postcondition (obligation post.def…@rK of `Parent$N`), for every
// argument and every state, so nothing is assumed about the literal that is not proved.
//
// Side conditions (checked here, panic(unsupported) otherwise):
//   * the literal has exactly one parameter of sort Val and results (bool|Value, error);
//   * no Store to a captured variable's cell is reachable in the parent after the MakeClosure, and the literal
//     itself does not store to captured cells (so "content at creation" = content at every later call);
// Remaining assumption (listed in notes/w-c01.md): heap rows READ by the clause (e.g. the runes of a String
// operand inside mem2(b, v)) are not modified between creation and the calls. This is value immutability,
// property C03, which is verified separately (`assigns fresh-only` on every value operation).

import (
	"fmt"
	"go/types"
	"strings"

	"golang.org/x/tools/go/ssa"
)

// a closure-definition clause is labelled def<name> with a non-empty name (defholds, defimg, …); the plain
// label `def` is an ordinary clause label used by other contracts
func isDefClause(c *Clause) bool { return strings.HasPrefix(c.Label, "def") && len(c.Label) > 3 }

func (vc *VC) closureDefHook(mc *ssa.MakeClosure, f string, st *State, reach string) {
	fn := mc.Fn.(*ssa.Function)
	key := funcKey(fn)
	con := vc.eng.CS.Contracts[key]
	if con == nil {
		return
	}
	var defs []*Clause
	for _, e := range con.Ensures {
		if isDefClause(e) {
			defs = append(defs, e)
		}
	}
	if len(defs) == 0 {
		return
	}
	sig := fn.Signature
	if sig.Params().Len() != 1 || sig.Results().Len() != 2 {
		panic(unsupported(key + ": closure definition clauses need a literal func(x) (r, error)"))
	}
	ps := sortsOf(sig.Params().At(0).Type())
	r0 := sortsOf(sig.Results().At(0).Type())
	r1 := sortsOf(sig.Results().At(1).Type())
	if len(ps) != 1 || ps[0] != "Val" || len(r0) != 1 || len(r1) != 1 || r1[0] != "Val" || (r0[0] != "Bool" && r0[0] != "Val") {
		panic(unsupported(key + ": closure definition clauses need func(Value) (bool|Value, error)"))
	}
	// captured cells: no store reachable after creation, none inside the literal
	reachable := map[*ssa.BasicBlock]bool{}
	var walk func(b *ssa.BasicBlock)
	walk = func(b *ssa.BasicBlock) {
		for _, s := range b.Succs {
			if !reachable[s] {
				reachable[s] = true
				walk(s)
			}
		}
	}
	walk(mc.Block())
	for i, b := range mc.Bindings {
		a, ok := b.(*ssa.Alloc)
		if !ok {
			continue
		}
		for _, r := range *a.Referrers() {
			s, isSt := r.(*ssa.Store)
			if !isSt || s.Addr != a {
				continue
			}
			after := reachable[s.Block()]
			if !after && s.Block() == mc.Block() {
				seenMC := false
				for _, in := range mc.Block().Instrs {
					if in == ssa.Instruction(mc) {
						seenMC = true
					}
					if in == ssa.Instruction(s) {
						after = seenMC
						break
					}
				}
			}
			if after {
				panic(unsupported(fmt.Sprintf("%s: closure definition: captured variable %s is assigned after the closure is created", key, fn.FreeVars[i].Name())))
			}
		}
		for _, r := range *fn.FreeVars[i].Referrers() {
			if s, isSt := r.(*ssa.Store); isSt && s.Addr == fn.FreeVars[i] {
				panic(unsupported(fmt.Sprintf("%s: closure definition: the literal assigns its captured variable %s", key, fn.FreeVars[i].Name())))
			}
		}
	}
	cv := vc.fresh("cv", "Val") // used as the bound variable of the quantified assumption
	env := vc.newEnv(st, st, nil)
	env.local = false
	env.ownFn = false
	env.fvBind = closureBindings(mc)
	env.pkg = con.Pkg
	// the literal's parameter shadows everything of the parent
	pname := "p0"
	if len(con.Params) == 1 && con.Params[0] != "*" {
		pname = con.Params[0]
	}
	env.vars = map[string]SV{}
	env.vars[pname] = Sc{"Val", cv}
	res0 := "fimg"
	if r0[0] == "Bool" {
		res0 = "holds"
	}
	p0 := Sc{r0[0], app(res0, f, cv)}
	p1 := Sc{"Val", app("perr", f, cv)}
	var rt types.Type = sig.Results()
	env.vars["result"] = mkSV(rt, []string{p0.T, p1.T})
	env.vars["result.0"] = p0
	env.vars["result.1"] = p1
	if len(con.Results) > 0 {
		env.vars[con.Results[0]] = p0
	}
	if len(con.Results) > 1 {
		env.vars[con.Results[1]] = p1
	}
	var pre []string
	for _, r := range con.Requires {
		if isCapturedClause(r) {
			continue
		}
		pre = append(pre, vc.evalBool(env, r.Expr))
	}
	for _, d := range defs {
		body := vc.evalBool(env, d.Expr)
		if len(pre) > 0 {
			body = app("=>", sAnd(pre...), body)
		}
		q := fmt.Sprintf("(forall ((%s Val)) (! %s :pattern ((%s %s %s)) :pattern ((perr %s %s))))", cv, body, res0, f, cv, f, cv)
		vc.assume(reach, q)
	}
	vc.eng.note("closure definition: contract clauses `def…` of " + key + " assumed for the closure value created in " + vc.key + " (captured state as at creation; relies on value immutability, C03)")
}
