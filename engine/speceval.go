package main

// Specification expressions -> symbolic values / SMT terms.

import (
	"fmt"
	"go/ast"
	"go/types"
	"strconv"
	"strings"

	"golang.org/x/tools/go/ssa"
)

type specErr string

type NilSV struct{}

func (NilSV) isSV() {}

type Env struct {
	vc      *VC
	vars    map[string]SV
	oldVars map[string]SV
	st, old *State
	header  *ssa.BasicBlock
	local   bool
	pkg     string
	guard   string
	fvBind  map[string]ssa.Value // call of a closure: captured-variable name -> bound value (closurefv.go)
	fvTerms map[string]SV        // captproj.go (x-c17): captured-variable name -> term (call through a fnfield)
	ownFn   bool                 // clause of the function under verification (captured variables resolvable)
	bound   map[string]bool      // names bound by quantifiers / let / macro parameters (they shadow Go locals)
	from    *ssa.BasicBlock      // effects.go: `loop k ensures`: locals are resolved at the end of this block
	prevOf  *headerSnap          // effects.go: state for prev()
}

func (vc *VC) newEnv(st, old *State, header *ssa.BasicBlock) *Env {
	e := &Env{vc: vc, vars: map[string]SV{}, st: st, old: old, header: header, local: true, guard: "true", ownFn: true}
	if vc.con != nil {
		e.pkg = vc.con.Pkg
	}
	for k, v := range vc.params {
		e.vars[k] = v
	}
	return e
}

func (e *Env) fail(format string, a ...interface{}) {
	panic(specErr(fmt.Sprintf(format, a...)))
}

func (e *Env) with(name string, v SV) *Env {
	n := *e
	n.vars = map[string]SV{}
	for k, x := range e.vars {
		n.vars[k] = x
	}
	n.vars[name] = v
	n.bound = map[string]bool{name: true}
	for k := range e.bound {
		n.bound[k] = true
	}
	return &n
}

func (vc *VC) evalBool(env *Env, x Expr) string {
	v := env.eval(x)
	s, ok := v.(Sc)
	if !ok || s.S != "Bool" {
		env.fail("expected a boolean expression")
	}
	return s.T
}

func (vc *VC) evalInt(env *Env, x Expr) string {
	v := env.eval(x)
	s, ok := v.(Sc)
	if !ok || s.S != "Int" {
		env.fail("expected an integer expression")
	}
	return s.T
}

func (e *Env) boolOf(x Expr) string { return e.vc.evalBool(e, x) }

func (e *Env) eval(x Expr) SV {
	vc := e.vc
	switch n := x.(type) {
	case EInt:
		v, err := strconv.ParseInt(n.V, 0, 64)
		if err != nil {
			return Sc{"Int", n.V}
		}
		return Sc{"Int", sInt(v)}
	case EBool:
		if n.V {
			return Sc{"Bool", "true"}
		}
		return Sc{"Bool", "false"}
	case ENil:
		return NilSV{}
	case EStr:
		s, err := strconv.Unquote(`"` + n.V + `"`)
		if err != nil {
			s = n.V
		}
		return Sc{"Str", vc.strConst(s)}
	case EIdent:
		return e.ident(n.Name)
	case EUnary:
		v := e.eval(n.X)
		s, ok := v.(Sc)
		if !ok {
			e.fail("unary %s on a structured value", n.Op)
		}
		if n.Op == "!" {
			return Sc{"Bool", sNot(s.T)}
		}
		if s.S == "F" {
			return Sc{"F", app("fp.neg", s.T)}
		}
		return Sc{"Int", app("-", s.T)}
	case EBinary:
		return e.binary(n)
	case EField:
		return e.field(e.eval(n.X), n.Name)
	case EIndex:
		base := e.eval(n.X)
		idx := e.eval(n.I)
		if p, isPt := idx.(Pt); isPt && p.Kind == "heap" { // x-c17: ghost arrays indexed by a pointer (its reference)
			idx = Sc{"Int", p.Ref}
		}
		switch b := base.(type) {
		case Sl:
			return vc.readElem(e.st, b, idx.(Sc).T)
		case Sc:
			if b.S == "Str" {
				return Sc{"Int", app("sat", b.T, idx.(Sc).T)}
			}
			if strings.HasPrefix(b.S, "(Array") {
				return Sc{arrayElemSort(b.S), app("select", b.T, idx.(Sc).T)}
			}
		case St:
			i, err := strconv.Atoi(idx.(Sc).T)
			if err == nil && i < len(b.F) {
				return b.F[i]
			}
		case mapSV:
			v, _ := vc.mapGet(b.typ, b.ref, toLeaves(idx)[0], e.st)
			return v
		}
		e.fail("cannot index this value")
	case ESlice:
		b, ok := e.eval(n.X).(Sl)
		if !ok {
			if s, isStr := e.eval(n.X).(Sc); isStr && s.S == "Str" {
				lo, hi := "0", app("slen", s.T)
				if n.Lo != nil {
					lo = e.eval(n.Lo).(Sc).T
				}
				if n.Hi != nil {
					hi = e.eval(n.Hi).(Sc).T
				}
				return Sc{"Str", app("ssub", s.T, lo, hi)}
			}
			e.fail("slice expression on a non-slice")
		}
		lo, hi := "0", b.Len
		if n.Lo != nil {
			lo = e.eval(n.Lo).(Sc).T
		}
		if n.Hi != nil {
			hi = e.eval(n.Hi).(Sc).T
		}
		return Sl{Ref: b.Ref, Off: simplAdd(b.Off, lo), Len: simplSub(hi, lo), Cap: simplSub(b.Cap, lo), Elem: b.Elem}
	case ECall:
		return e.call(n)
	case EQuant:
		return e.quant(n)
	case EOld:
		o := *e
		o.st = e.old
		if e.oldVars != nil {
			o.vars = map[string]SV{}
			for k, v := range e.vars {
				o.vars[k] = v
			}
			for k, v := range e.oldVars {
				o.vars[k] = v
			}
		}
		return o.eval(n.X)
	case EIs:
		v, ok := e.eval(n.X).(Sc)
		if !ok || v.S != "Val" {
			e.fail("'is' needs an interface value")
		}
		t, err := vc.eng.resolveType(n.Type, e.pkg)
		if err != nil {
			e.fail("%v", err)
		}
		if _, isIface := t.Underlying().(*types.Interface); isIface {
			return Sc{"Bool", app(vc.implPred(t), app("tagof", v.T))}
		}
		return Sc{"Bool", sEq(app("tagof", v.T), sInt(int64(vc.eng.tagOf(t))))}
	case EAs:
		v, ok := e.eval(n.X).(Sc)
		if !ok || v.S != "Val" {
			e.fail("type projection needs an interface value")
		}
		t, err := vc.eng.resolveType(n.Type, e.pkg)
		if err != nil {
			e.fail("%v", err)
		}
		return vc.unbox(t, v.T, e.st, "false")
	case ELet:
		return e.with(n.Var, e.eval(n.Val)).eval(n.Body)
	case ECond:
		c := e.boolOf(n.C)
		a, b := e.eval(n.A), e.eval(n.B)
		la, lb := toLeaves(a), toLeaves(b)
		if len(la) != len(lb) {
			e.fail("branches of ?: have different shapes")
		}
		out := make([]string, len(la))
		for i := range la {
			out[i] = sIte(c, la[i], lb[i])
		}
		return rebuildLike(a, out)
	}
	e.fail("unsupported expression %T", x)
	return nil
}

func arrayElemSort(s string) string {
	// "(Array K X)" -> X
	el := listElems(s)
	if len(el) == 3 {
		return el[2]
	}
	s = strings.TrimPrefix(s, "(Array Int ")
	return strings.TrimSuffix(s, ")")
}

func rebuildLike(v SV, ls []string) SV {
	switch x := v.(type) {
	case Sc:
		return Sc{x.S, ls[0]}
	case Sl:
		return Sl{ls[0], ls[1], ls[2], ls[3], x.Elem}
	case St:
		out := St{Typ: x.Typ}
		for _, f := range x.F {
			n := len(toLeaves(f))
			out.F = append(out.F, rebuildLike(f, ls[:n]))
			ls = ls[n:]
		}
		return out
	case Pt:
		p := x
		p.Ref = ls[0]
		return p
	}
	panic("rebuildLike")
}

type mapSV struct {
	Sc
	typ types.Type
	ref string
}

func (e *Env) ident(name string) SV {
	vc := e.vc
	if e.local && e.header != nil && e.bound[name] == false {
		// in a loop invariant a name that is both a parameter and a reassigned local means the local's current value
		if _, isParam := vc.params[name]; isParam {
			if v := vc.resolveLocal(name, e.header, e.st); v != nil {
				return v
			}
		}
	}
	if v, ok := e.vars[name]; ok {
		return v
	}
	if name == "$sel" {
		return Sc{"Int", vc.get(e.st, "G|sel", "Int")}
	}
	if e.local && e.from != nil {
		if v := vc.resolveAt(name, e.from); v != nil {
			return v
		}
	}
	if e.local && e.header != nil {
		if v := vc.resolveLocal(name, e.header, e.st); v != nil {
			return v
		}
	}
	if v := e.freeVarIdent(name); v != nil {
		if t := e.freeVarType(name); t != nil {
			return vc.typedSV(v, t) // effects.go: captured maps usable as m[k], has(m,k)
		}
		return v
	}
	if _, ret, ok := vc.eng.Prelude.Sig(name); ok {
		return Sc{ret, name}
	}
	if g, ok := e.ghost(name); ok {
		return g
	}
	if v := e.guardedGlobalIdent(name); v != nil { // onceinv.go (x-c17): guarded package-level variables
		return v
	}
	if e.local && e.header != nil {
		if v := vc.tolerantLocal(name, e.header, e.st); v != nil { // tolerant.go: renamed local, for <-> range
			return v
		}
	}
	if e.local && e.from != nil {
		if v := vc.tolerantAt(name, e.from); v != nil { // tolerant.go
			return v
		}
	}
	if e.from != nil {
		panic(unresolved(name))
	}
	e.fail("unknown identifier %q", name)
	return nil
}

func (e *Env) ghost(name string) (SV, bool) {
	for _, g := range e.vc.eng.CS.Ghosts {
		if g.Name == name {
			return Sc{g.Sort, e.vc.get(e.st, "G|"+name, g.Sort)}, true
		}
	}
	return nil, false
}

func (vc *VC) resolveLocal(name string, h *ssa.BasicBlock, st *State) SV {
	if name == "$idx" {
		for _, in := range h.Instrs {
			if phi, ok := in.(*ssa.Phi); ok && phi.Comment == "rangeindex" {
				return Sc{"Int", app("+", vc.vals[phi].(Sc).T, "1")}
			}
		}
		return nil
	}
	if strings.HasPrefix(name, "$idx") && len(name) > 4 {
		// $idxK (w-c19): $idx of the enclosing range loop number K, usable in invariants of loops nested in it
		// (inside the body of loop K it is the index of the current iteration of loop K)
		if k, err := strconv.Atoi(name[4:]); err == nil {
			for hb, li := range vc.loops {
				if li.index != k || !(hb == h || (li.body[h] && hb.Dominates(h))) {
					continue
				}
				for _, in := range hb.Instrs {
					if phi, ok := in.(*ssa.Phi); ok && phi.Comment == "rangeindex" {
						if v, ok := vc.vals[phi].(Sc); ok {
							return Sc{"Int", app("+", v.T, "1")}
						}
					}
				}
			}
		}
		return nil
	}
	if name == "$seen" {
		for k := range st.vars {
			if strings.HasPrefix(k, "G|seen.") {
				return Sc{vc.svSort[k], st.vars[k]}
			}
		}
		return nil
	}
	for d := h; d != nil; d = d.Idom() {
		if d != h {
			for i := len(d.Instrs) - 1; i >= 0; i-- {
				if dr, ok := d.Instrs[i].(*ssa.DebugRef); ok && !dr.IsAddr {
					if id, ok := dr.Expr.(*ast.Ident); ok && id.Name == name {
						if v, ok := vc.vals[dr.X]; ok {
							return vc.typedSV(v, dr.X.Type())
						}
						if c, ok := dr.X.(*ssa.Const); ok {
							return vc.constSV(c)
						}
					}
				}
			}
		}
		for _, in := range d.Instrs {
			phi, ok := in.(*ssa.Phi)
			if !ok {
				break
			}
			if phi.Comment == name {
				if v, ok := vc.vals[phi]; ok {
					return v
				}
			}
		}
	}
	// addressable locals
	for _, b := range vc.fn.Blocks {
		for _, in := range b.Instrs {
			if a, ok := in.(*ssa.Alloc); ok && a.Comment == name {
				if !a.Heap {
					if v, ok := st.locals[a]; ok {
						return v
					}
				} else if p, ok := vc.vals[a].(Pt); ok {
					return vc.typedSV(vc.readHeapPtr(st, p), a.Type().(*types.Pointer).Elem())
				}
			}
		}
	}
	for _, fv := range vc.fn.FreeVars {
		if fv.Name() == name {
			if v, ok := st.locals[fv]; ok {
				return vc.typedSV(v, fv.Type().(*types.Pointer).Elem())
			}
		}
	}
	return nil
}

func (e *Env) field(v SV, name string) SV {
	vc := e.vc
	switch x := v.(type) {
	case St:
		if i, err := strconv.Atoi(name); err == nil && i < len(x.F) {
			return x.F[i]
		}
		if stt, ok := x.Typ.Underlying().(*types.Struct); ok {
			for i := 0; i < stt.NumFields(); i++ {
				if stt.Field(i).Name() == name {
					return x.F[i]
				}
			}
		}
		e.fail("no field %s", name)
	case Sl:
		switch name {
		case "len":
			return Sc{"Int", x.Len}
		case "cap":
			return Sc{"Int", x.Cap}
		case "ref":
			return Sc{"Int", x.Ref}
		case "off":
			return Sc{"Int", x.Off}
		}
	case Pt:
		if x.Kind == "heap" {
			if name == "ref" {
				return Sc{"Int", x.Ref}
			}
			stt, ok := x.Elem.Underlying().(*types.Struct)
			if !ok {
				e.fail("field of pointer to non-struct")
			}
			for i := 0; i < stt.NumFields(); i++ {
				if stt.Field(i).Name() == name {
					np := x
					np.Path = append(append([]int(nil), x.Path...), i)
					np.Elem = stt.Field(i).Type()
					if _, isStruct := np.Elem.Underlying().(*types.Struct); isStruct {
						return vc.readHeapPtr(e.st, np)
					}
					return vc.readHeapPtr(e.st, np)
				}
			}
		}
		if x.Kind == "local" {
			cell := e.st.locals[x.Local]
			return e.field(getPath(cell, x.Path), name)
		}
	}
	e.fail("cannot select field %s", name)
	return nil
}

func (e *Env) nilLike(v SV) SV {
	if m, ok := v.(mapSV); ok { // w-c04
		v = m.Sc
	}
	switch x := v.(type) {
	case Sc:
		switch x.S {
		case "Val":
			return Sc{"Val", "nilVal"}
		case "Fn":
			return Sc{"Fn", "nilFn"}
		case "Int":
			return Sc{"Int", "0"}
		}
	case Sl:
		return Sc{"Int", "0"}
	case Pt:
		return Sc{"Int", "0"}
	}
	e.fail("nil compared with a value that cannot be nil")
	return nil
}

func (e *Env) binary(n EBinary) SV {
	switch n.Op {
	case "&&":
		return Sc{"Bool", sAnd(e.boolOf(n.L), e.boolOf(n.R))}
	case "||":
		return Sc{"Bool", sOr(e.boolOf(n.L), e.boolOf(n.R))}
	case "==>":
		return Sc{"Bool", sImp(e.boolOf(n.L), e.boolOf(n.R))}
	case "<==>":
		return Sc{"Bool", app("=", e.boolOf(n.L), e.boolOf(n.R))}
	}
	l, r := e.eval(n.L), e.eval(n.R)
	if n.Op == "==" || n.Op == "!=" {
		var eq string
		_, ln := l.(NilSV)
		_, rn := r.(NilSV)
		switch {
		case ln && rn:
			eq = "true"
		case rn:
			eq = e.nilEq(l)
		case ln:
			eq = e.nilEq(r)
		default:
			ls, lok := l.(Sc)
			if lok && ls.S == "F" {
				eq = app("fp.eq", ls.T, r.(Sc).T)
			} else {
				la, lb := toLeaves(l), toLeaves(r)
				if len(la) != len(lb) {
					e.fail("== on values of different shapes")
				}
				eq = eqSV(l, r)
			}
		}
		if n.Op == "!=" {
			eq = sNot(eq)
		}
		return Sc{"Bool", eq}
	}
	ls, lok := l.(Sc)
	rs, rok := r.(Sc)
	if !lok || !rok {
		e.fail("operator %s on structured values", n.Op)
	}
	if ls.S == "F" || rs.S == "F" {
		m := map[string]string{"<": "fp.lt", "<=": "fp.leq", ">": "fp.gt", ">=": "fp.geq"}
		if op, ok := m[n.Op]; ok {
			return Sc{"Bool", app(op, ls.T, rs.T)}
		}
		m2 := map[string]string{"+": "fp.add", "-": "fp.sub", "*": "fp.mul", "/": "fp.div"}
		return Sc{"F", app(m2[n.Op], "RNE", ls.T, rs.T)}
	}
	switch n.Op {
	case "<", "<=", ">", ">=":
		return Sc{"Bool", app(n.Op, ls.T, rs.T)}
	case "+", "-", "*":
		if n.Op == "+" {
			return Sc{"Int", simplAdd(ls.T, rs.T)}
		}
		return Sc{"Int", app(n.Op, ls.T, rs.T)}
	case "/":
		return Sc{"Int", app("godiv", ls.T, rs.T)}
	case "%":
		return Sc{"Int", app("gomod", ls.T, rs.T)}
	}
	e.fail("unknown operator %s", n.Op)
	return nil
}

func typeNameOf(x Expr) string {
	switch n := x.(type) {
	case EIdent:
		return n.Name
	case EField:
		return typeNameOf(n.X) + "." + n.Name
	case EUnary:
		return "*" + typeNameOf(n.X)
	}
	return ""
}

func (e *Env) nilEq(v SV) string {
	if m, ok := v.(mapSV); ok { // w-c04: maps are references, nil = 0
		v = m.Sc
	}
	switch x := v.(type) {
	case Sc:
		switch x.S {
		case "Val":
			return sEq(x.T, "nilVal")
		case "Fn":
			return sEq(x.T, "nilFn")
		case "Int":
			return sEq(x.T, "0")
		}
	case Sl:
		return sEq(x.Ref, "0")
	case Pt:
		if x.Kind != "heap" { // x-c09: &slice[i], &local, &global are never nil (their Ref is empty)
			return "false"
		}
		return sEq(x.Ref, "0")
	case mapSV:
		return sEq(x.ref, "0")
	}
	e.fail("nil compared with a value that cannot be nil")
	return ""
}

func (e *Env) quant(n EQuant) SV {
	// A chain of like quantifiers (forall i .. :: forall k .. :: body) becomes ONE SMT quantifier with several
	// bound variables (w-c09): solvers infer usable triggers for a flat prefix, not for nested binders.
	vc := e.vc
	cur := e
	var binders, rngs []string
	node := n
	for {
		vc.nfresh++
		bv := fmt.Sprintf("%s!%d", sanitize(node.Var), vc.nfresh)
		sort := "Int"
		if node.Sort != "" {
			sort = node.Sort
		}
		if node.Lo != nil {
			lo, hi := vc.evalInt(cur, node.Lo), vc.evalInt(cur, node.Hi)
			rngs = append(rngs, app("<=", lo, bv), app("<", bv, hi))
		}
		cur = cur.with(node.Var, Sc{sort, bv})
		binders = append(binders, "("+bv+" "+sort+")")
		nx, ok := node.Body.(EQuant)
		if !ok || nx.All != n.All {
			break
		}
		node = nx
	}
	vc.noFacts++
	body := cur.boolOf(node.Body)
	vc.noFacts--
	q := "forall"
	if !n.All {
		q = "exists"
	}
	if len(rngs) > 0 {
		rng := sAnd(rngs...)
		if n.All {
			body = sImp(rng, body)
		} else {
			body = sAnd(rng, body)
		}
	}
	return Sc{"Bool", fmt.Sprintf("(%s (%s) %s)", q, strings.Join(binders, " "), body)}
}

func (e *Env) call(n ECall) SV {
	vc := e.vc
	switch n.Fn {
	case "len":
		switch v := e.eval(n.Args[0]).(type) {
		case Sl:
			return Sc{"Int", v.Len}
		case Sc:
			if v.S == "Str" {
				return Sc{"Int", app("slen", v.T)}
			}
		case mapSV:
			return Sc{"Int", vc.mapLen(v.typ, v.ref, e.st)}
		}
		e.fail("len of a value that has no length")
	case "fnresult":
		return e.fnResult(n)
	case "fnapply":
		return e.fnApply(n) // fnapply.go (w-c05)
	case "lastcall":
		return e.lastCall(n)
	case "settled":
		return e.settledSpec(n) // onceinv.go (x-c17)
	case "captured":
		return e.capturedSpec(n) // captproj.go (x-c17)
	case "fnval":
		return e.fnvalSpec(n) // fnis.go
	case "prev":
		// prev(e): e in the state at the loop header of the current iteration (`loop k ensures` only)
		snap := e.prevOf
		if len(n.Args) == 2 {
			// prev(e, k): state at the header of the enclosing loop k (current iteration of that loop)
			k, err := strconv.Atoi(n.Args[1].(EInt).V)
			if err == nil && k >= 0 && k < len(vc.loopOrd) && vc.hdr[vc.loopOrd[k]] == nil && vc.dry > 0 {
				return e.eval(n.Args[0]) // dry run (write-set discovery only)
			}
			if err != nil || k < 0 || k >= len(vc.loopOrd) || vc.hdr[vc.loopOrd[k]] == nil {
				e.fail("prev(e, k): loop %v has not been entered at this point", n.Args[1])
			}
			snap = vc.hdr[vc.loopOrd[k]]
		}
		if snap == nil {
			return e.eval(n.Args[0])
		}
		o := *e
		o.st = snap.st
		o.from = nil
		o.header = snap.h
		saved := map[*ssa.Phi]SV{}
		for phi, v := range snap.phis {
			saved[phi] = vc.vals[phi]
			vc.vals[phi] = v
		}
		r := o.eval(n.Args[0])
		for phi, v := range saved {
			vc.vals[phi] = v
		}
		return r
	case "cap":
		if v, ok := e.eval(n.Args[0]).(Sl); ok {
			return Sc{"Int", v.Cap}
		}
		e.fail("cap of a non-slice")
	case "ite":
		return e.eval(ECond{n.Args[0], n.Args[1], n.Args[2]})
	case "row":
		// the heap row (Array Int elem) a slice points into; leaf index optional
		sl, ok := e.eval(n.Args[0]).(Sl)
		if !ok {
			e.fail("row() needs a slice")
		}
		leaf := 0
		if len(n.Args) > 1 {
			leaf, _ = strconv.Atoi(n.Args[1].(EInt).V)
		}
		s := sortsOf(sl.Elem)[leaf]
		h := vc.get(e.st, hsName(sl.Elem, leaf), heapSort(s))
		return Sc{rowSort(s), app("select", h, sl.Ref)}
	case "cur":
		// cur(x) (w-c04): the CURRENT value of the Go variable x at the loop header, also when x is a parameter
		// that the function re-assigns (a bare parameter name always denotes the value at entry)
		id, ok := n.Args[0].(EIdent)
		if !ok || len(n.Args) != 1 {
			e.fail("cur() needs a variable name")
		}
		if e.local && e.header != nil {
			if v := vc.resolveLocal(id.Name, e.header, e.st); v != nil {
				return v
			}
		}
		return e.ident(id.Name)
	case "fresh":
		// fresh(s): the row was allocated by this call
		switch v := e.eval(n.Args[0]).(type) {
		case Sl:
			return Sc{"Bool", app(">=", v.Ref, vc.allocTerm(e.old))}
		case Pt:
			return Sc{"Bool", app(">=", v.Ref, vc.allocTerm(e.old))}
		}
		e.fail("fresh() needs a slice or pointer")
	case "allocated":
		switch v := e.eval(n.Args[0]).(type) {
		case Sl:
			return Sc{"Bool", app("<", v.Ref, vc.allocTerm(e.st))}
		case Pt:
			return Sc{"Bool", app("<", v.Ref, vc.allocTerm(e.st))}
		}
	case "tagof":
		return Sc{"Int", app("tagof", e.eval(n.Args[0]).(Sc).T)}
	case "same":
		// same(a,b): identical values (SMT equality on every leaf; for floats this is bit identity, unlike ==)
		la, lb := toLeaves(e.eval(n.Args[0])), toLeaves(e.eval(n.Args[1]))
		if len(la) != len(lb) {
			e.fail("same() on values of different shapes")
		}
		var cs []string
		for i := range la {
			cs = append(cs, sEq(la[i], lb[i]))
		}
		return Sc{"Bool", sAnd(cs...)}
	case "store":
		// store(array, key, value): SMT array update (for ghost sets/maps)
		a, ok := e.eval(n.Args[0]).(Sc)
		if !ok || !strings.HasPrefix(a.S, "(Array") {
			e.fail("store() needs an SMT array")
		}
		return Sc{a.S, app("store", a.T, toLeaves(e.eval(n.Args[1]))[0], toLeaves(e.eval(n.Args[2]))[0])}
	case "tag":
		id, ok := n.Args[0].(EIdent)
		var tn string
		if ok {
			tn = id.Name
		} else if f, ok := n.Args[0].(EField); ok {
			tn = f.X.(EIdent).Name + "." + f.Name
		}
		t, err := vc.eng.resolveType(tn, e.pkg)
		if err != nil {
			e.fail("%v", err)
		}
		return Sc{"Int", sInt(int64(vc.eng.tagOf(t)))}
	case "box":
		// box(x): the interface value holding the concrete struct value x
		v := e.eval(n.Args[0])
		st, ok := v.(St)
		if !ok || st.Typ == nil {
			if sc, isVal := v.(Sc); isVal && sc.S == "Val" {
				return sc
			}
			// box(p) for a pointer to a named struct (pointer receivers such as *rel.GenericTuple)
			if pt, isPt := v.(Pt); isPt && pt.Kind == "heap" && len(pt.Path) == 0 && pt.Elem != nil {
				if _, named := pt.Elem.(*types.Named); named {
					return vc.makeInterface(types.NewPointer(pt.Elem), Sc{"Int", pt.Ref})
				}
			}
			e.fail("box() needs a value of a named struct type")
		}
		return vc.makeInterface(st.Typ, st)
	case "mkval":
		// mkval(pkg.Type, leaf, ...): the interface value holding a Type built from the given components
		tn := typeNameOf(n.Args[0])
		t, err := vc.eng.resolveType(tn, e.pkg)
		if err != nil {
			e.fail("%v", err)
		}
		var ls []string
		for _, a := range n.Args[1:] {
			ls = append(ls, toLeaves(e.eval(a))...)
		}
		if len(ls) != len(sortsOf(t)) {
			e.fail("mkval(%s): %d components needed, %d given", tn, len(sortsOf(t)), len(ls))
		}
		return vc.makeInterface(t, mkSV(t, ls))
	case "has":
		m, ok := e.eval(n.Args[0]).(mapSV)
		if !ok {
			e.fail("has() needs a map")
		}
		_, has := vc.mapGet(m.typ, m.ref, toLeaves(e.eval(n.Args[1]))[0], e.st)
		return Sc{"Bool", has}
	}
	if m, ok := vc.eng.CS.Macros[n.Fn]; ok {
		if len(m.Params) != len(n.Args) {
			e.fail("spec %s takes %d arguments", n.Fn, len(m.Params))
		}
		inner := *e
		inner.vars = map[string]SV{}
		for k, v := range e.vars {
			inner.vars[k] = v
		}
		inner.bound = map[string]bool{}
		for k := range e.bound {
			inner.bound[k] = true
		}
		for i, p := range m.Params {
			inner.vars[p] = e.eval(n.Args[i])
			inner.bound[p] = true
		}
		return inner.eval(m.Body)
	}
	if argS, ret, ok := vc.eng.Prelude.Sig(n.Fn); ok {
		var ls []string
		for _, a := range n.Args {
			v := e.eval(a)
			if _, isNil := v.(NilSV); isNil {
				ls = append(ls, "nilVal")
				continue
			}
			ls = append(ls, toLeaves(v)...)
		}
		if len(ls) != len(argS) {
			e.fail("prelude function %s takes %d leaves, got %d", n.Fn, len(argS), len(ls))
		}
		return Sc{ret, app(n.Fn, ls...)}
	}
	e.fail("unknown specification function %s", n.Fn)
	return nil
}
