package main

// Tolerance to behaviour-preserving edits of the code under contract.
//
// Contracts name loops by ordinal and locals by name. Three harmless edits make such a contract stop applying
// although the property still holds; each is resolved here by a *search for a binding under which the contract applies*.
// This is sound: invariants and postconditions are PROVED under the chosen binding, never assumed, so a wrong binding can
// only make an obligation fail (which is what happened before the search existed), never make a false one pass.
//
//  1. loops reordered in the source (if/else branches swapped): if a loop clause names a local that does not exist at
//     "its" loop, the permutations of loop ordinals are tried until every name resolves (GenFunc).
//  2. `for i := 0; i < n; i++` rewritten as `for i := range xs` or back: `i` in an invariant of a range loop means the
//     number of completed iterations ($idx), and `$idx` in an invariant of a counting loop means its counter.
//  3. a local renamed: a name that resolves nowhere is bound to the only local in scope at the loop that the contract
//     does not mention, if there is exactly one.

import (
	"fmt"
	"go/ast"
	"go/token"
	"go/types"
	"os"
	"regexp"
	"strings"
	"sync"

	"golang.org/x/tools/go/ssa"
)

var loopPermMu sync.Mutex
var loopPerm = map[string][]int{}

func getLoopPerm(key string) []int {
	loopPermMu.Lock()
	defer loopPermMu.Unlock()
	return loopPerm[key]
}

func setLoopPerm(key string, p []int) {
	loopPermMu.Lock()
	defer loopPermMu.Unlock()
	if p == nil {
		delete(loopPerm, key)
	} else {
		loopPerm[key] = p
	}
}

func permutations(n int) [][]int {
	var out [][]int
	var rec func(cur []int, used []bool)
	rec = func(cur []int, used []bool) {
		if len(cur) == n {
			out = append(out, append([]int(nil), cur...))
			return
		}
		for i := 0; i < n; i++ {
			if !used[i] {
				used[i] = true
				rec(append(cur, i), used)
				used[i] = false
			}
		}
	}
	rec(nil, make([]bool, n))
	return out
}

// GenFunc generates the obligations of one function; if the contract's loop clauses do not resolve against the loops in
// source order, other assignments of loop ordinals are tried (see 1. above).
func (e *Engine) GenFunc(key string, con *Contract) (*VC, error) {
	vc, err := e.genFuncOnce(key, con)
	if err == nil || !strings.Contains(err.Error(), "unknown identifier") || vc == nil {
		return vc, err
	}
	n := len(vc.loopOrd)
	if n < 2 || n > 4 {
		return vc, err
	}
	for _, p := range permutations(n)[1:] {
		setLoopPerm(key, p)
		vc2, err2 := e.genFuncOnce(key, con)
		if err2 == nil {
			fmt.Fprintf(os.Stderr, "govc: note: %s: loop clauses applied with loop ordinals %v (loops reordered in the source)\n", key, p)
			setLoopPerm(key, nil)
			return vc2, nil
		}
	}
	setLoopPerm(key, nil)
	return vc, err
}

var identRe = regexp.MustCompile(`[A-Za-z_$][A-Za-z_0-9$]*`)

func (vc *VC) contractIdents() map[string]bool {
	m := map[string]bool{}
	add := func(cs []*Clause) {
		for _, c := range cs {
			for _, w := range identRe.FindAllString(c.Text, -1) {
				m[w] = true
			}
		}
	}
	con := vc.con
	add(con.Requires)
	add(con.Ensures)
	add(con.Invs)
	add(con.Decs)
	add(con.Steps)
	add(con.IterEns)
	return m
}

// rangeIndexPhi returns the hidden index phi of a range-over-slice/array/string/int loop headed by h.
func rangeIndexPhi(h *ssa.BasicBlock) *ssa.Phi {
	for _, in := range h.Instrs {
		phi, ok := in.(*ssa.Phi)
		if !ok {
			break
		}
		if phi.Comment == "rangeindex" {
			return phi
		}
	}
	return nil
}

// tolerantLocal is consulted when `name` resolves to nothing in an invariant of the loop headed by h.
func (vc *VC) tolerantLocal(name string, h *ssa.BasicBlock, st *State) SV {
	li := vc.loops[h]
	if li == nil {
		return nil
	}
	// 2a. `i` of a former counting loop, now the index variable of a range loop: i == $idx at the header
	if rp := rangeIndexPhi(h); rp != nil && !strings.HasPrefix(name, "$") {
		for b := range li.body {
			for _, in := range b.Instrs {
				dr, ok := in.(*ssa.DebugRef)
				if !ok || dr.IsAddr {
					continue
				}
				id, ok := dr.Expr.(*ast.Ident)
				if !ok || id.Name != name {
					continue
				}
				if bo, ok := dr.X.(*ssa.BinOp); ok && bo.Op == token.ADD && bo.X == ssa.Value(rp) {
					if c, ok := bo.Y.(*ssa.Const); ok && c.Value != nil && c.Value.ExactString() == "1" {
						if v, ok := vc.vals[rp].(Sc); ok {
							vc.noteTolerant(name, "$idx (index variable of the range loop)")
							return Sc{"Int", app("+", v.T, "1")}
						}
					}
				}
			}
		}
	}
	// 2b. `$idx` of a former range loop, now a counting loop: the one int phi of the header that starts at 0 and steps by 1
	if name == "$idx" {
		var cand *ssa.Phi
		n := 0
		for _, in := range h.Instrs {
			phi, ok := in.(*ssa.Phi)
			if !ok {
				break
			}
			if b, ok := phi.Type().Underlying().(*types.Basic); !ok || b.Info()&types.IsInteger == 0 {
				continue
			}
			zeroIn, stepBack := false, false
			for i, e := range phi.Edges {
				pred := h.Preds[i]
				if li.body[pred] {
					if bo, ok := e.(*ssa.BinOp); ok && bo.Op == token.ADD && bo.X == ssa.Value(phi) {
						if c, ok := bo.Y.(*ssa.Const); ok && c.Value != nil && c.Value.ExactString() == "1" {
							stepBack = true
							continue
						}
					}
					stepBack = false
					break
				}
				if c, ok := e.(*ssa.Const); ok && c.Value != nil && c.Value.ExactString() == "0" {
					zeroIn = true
				}
			}
			if zeroIn && stepBack {
				cand = phi
				n++
			}
		}
		if n == 1 {
			if v, ok := vc.vals[cand]; ok {
				vc.noteTolerant(name, "counter "+cand.Comment)
				return v
			}
		}
		return nil
	}
	if strings.HasPrefix(name, "$") {
		return nil
	}
	// 3. renamed local
	if c := vc.renamedLocal(name, h); c != "" {
		if v := vc.resolveLocal(c, h, st); v != nil {
			vc.noteTolerant(name, "local "+c+" (renamed?)")
			return v
		}
	}
	return nil
}

// renamedLocal: the local that a name which resolves nowhere most plausibly denotes after a rename — the only variable
// updated by the loop headed by h (a named phi of the header) that the contract does not mention; failing that, the only
// local in scope at the header that the contract does not mention. "" if there is no unique candidate.
func (vc *VC) renamedLocal(name string, h *ssa.BasicBlock) string {
	if strings.HasPrefix(name, "$") {
		return ""
	}
	known := vc.contractIdents()
	for p := range vc.params {
		known[p] = true
	}
	phis := map[string]bool{}
	for _, in := range h.Instrs {
		x, ok := in.(*ssa.Phi)
		if !ok {
			break
		}
		if x.Comment != "" && x.Comment != "rangeindex" && !known[x.Comment] && !strings.Contains(x.Comment, " ") && !strings.Contains(x.Comment, ".") {
			phis[x.Comment] = true
		}
	}
	if len(phis) == 1 {
		for c := range phis {
			return c
		}
	}
	cands := map[string]bool{}
	for c := range phis {
		cands[c] = true
	}
	for d := h.Idom(); d != nil; d = d.Idom() {
		for _, in := range d.Instrs {
			switch x := in.(type) {
			case *ssa.Phi:
				if x.Comment != "" && x.Comment != "rangeindex" && !known[x.Comment] && !strings.Contains(x.Comment, " ") && !strings.Contains(x.Comment, ".") {
					cands[x.Comment] = true
				}
			case *ssa.DebugRef:
				if x.IsAddr {
					continue
				}
				if id, ok := x.Expr.(*ast.Ident); ok && id.Name != "_" && !known[id.Name] {
					if _, isVar := x.Object().(*types.Var); isVar {
						cands[id.Name] = true
					}
				}
			}
		}
	}
	if len(cands) == 1 {
		for c := range cands {
			return c
		}
	}
	return ""
}

// tolerantAt is the counterpart of tolerantLocal for clauses evaluated at a block inside a loop (per-iteration
// postconditions at a back edge): the renamed local is resolved at that block.
func (vc *VC) tolerantAt(name string, from *ssa.BasicBlock) SV {
	var h *ssa.BasicBlock
	for hb, li := range vc.loops { // innermost loop containing the block
		if li.body[from] && (h == nil || vc.loops[h].body[hb]) {
			h = hb
		}
	}
	if h == nil {
		return nil
	}
	if c := vc.renamedLocal(name, h); c != "" {
		if v := vc.resolveAt(c, from); v != nil {
			vc.noteTolerant(name, "local "+c+" (renamed?)")
			return v
		}
	}
	return nil
}

var tolerantNoted sync.Map

func (vc *VC) noteTolerant(name, what string) {
	k := vc.key + "|" + name + "|" + what
	if _, dup := tolerantNoted.LoadOrStore(k, true); !dup {
		fmt.Fprintf(os.Stderr, "govc: note: %s: contract name %q bound to %s\n", vc.key, name, what)
	}
}

// writesNothing: syntactic check that the body of fn cannot write memory that existed before the call: no store (other
// than to its own non-escaping locals), no map update, no channel send, no go/defer, and every call is a call of a
// dependency function from the read-only list (fmt.Errorf, errors.New, strings.HasPrefix, …) or a conversion built-in.
func writesNothing(fn *ssa.Function) bool {
	if len(fn.Blocks) == 0 || len(fn.FreeVars) > 0 {
		return false
	}
	for _, b := range fn.Blocks {
		for _, in := range b.Instrs {
			switch x := in.(type) {
			case *ssa.Store:
				if a, ok := x.Addr.(*ssa.Alloc); !ok || a.Heap {
					return false
				}
			case *ssa.MapUpdate, *ssa.Send, *ssa.Go, *ssa.Defer, *ssa.Select, *ssa.RunDefers:
				return false
			case ssa.CallInstruction:
				c := x.Common()
				if c.IsInvoke() {
					return false
				}
				switch f := c.Value.(type) {
				case *ssa.Function:
					if !isReadOnlyExtern(funcKey(f)) {
						return false
					}
				case *ssa.Builtin:
					switch f.Name() {
					case "len", "cap":
					default:
						return false
					}
				default:
					return false
				}
			}
		}
	}
	return true
}

// inlineLeaf executes a write-free helper that has no contract and consists of ONE basic block (no branch, no loop) in
// place, with its parameters bound to the arguments: the caller then knows what the contracts of the helper's own
// callees say about the result (e.g. that fmt.Errorf returns a non-nil error) instead of nothing at all.
func (vc *VC) inlineLeaf(callee *ssa.Function, args []SV, st *State, reach string, out *SV) (ok bool) {
	if len(callee.Blocks) != 1 || len(callee.Params) != len(args) || vc.inlining > 0 || vc.dry > 0 && false {
		return false
	}
	blk := callee.Blocks[0]
	if len(blk.Instrs) > 12 {
		return false
	}
	var ret *ssa.Return
	for _, in := range blk.Instrs {
		switch x := in.(type) {
		case *ssa.DebugRef, *ssa.Call, *ssa.MakeInterface, *ssa.ChangeInterface, *ssa.ChangeType, *ssa.Convert, *ssa.BinOp, *ssa.Extract:
		case *ssa.Return:
			ret = x
		default:
			return false
		}
	}
	if ret == nil {
		return false
	}
	vc.inlining++
	defer func() { vc.inlining-- }()
	for i, p := range callee.Params {
		vc.vals[p] = args[i]
	}
	for _, in := range blk.Instrs {
		if in == ssa.Instruction(ret) {
			break
		}
		vc.exec(blk, in, st, reach)
	}
	var rs []SV
	for _, r := range ret.Results {
		rs = append(rs, vc.val(r))
	}
	switch len(rs) {
	case 0:
		return true // *out keeps the (unused) fresh result
	case 1:
		*out = rs[0]
	default:
		tup := St{}
		if t, isSt := (*out).(St); isSt {
			tup.Typ = t.Typ
		}
		tup.F = rs
		*out = tup
	}
	vc.eng.note("repo function " + funcKey(callee) + " called from " + vc.key + " has no contract: single-block write-free helper executed in place")
	return true
}
