package main

// `govc ssa <key>...` prints the SSA of functions (debug aid for writing contracts: loop numbering,
// anonymous function keys, free variables).

import (
	"fmt"
	"os"
	"sort"
	"strings"

	"golang.org/x/tools/go/ssa"
)

func cmdSSA(args []string) int {
	e, err := Load(repoDir, verifDir, contractPackages())
	if err != nil {
		fmt.Fprintln(os.Stderr, err)
		return 2
	}
	if len(args) == 0 {
		var ks []string
		for k := range e.Funcs {
			ks = append(ks, k)
		}
		sort.Strings(ks)
		for _, k := range ks {
			fmt.Println(k)
		}
		return 0
	}
	for _, a := range args {
		found := false
		var ks []string
		for k := range e.Funcs {
			ks = append(ks, k)
		}
		sort.Strings(ks)
		for _, k := range ks {
			if k == a || (strings.HasSuffix(a, "*") && strings.HasPrefix(k, strings.TrimSuffix(a, "*"))) {
				found = true
				fn := e.Funcs[k]
				fmt.Printf("=== %s\n", k)
				for _, fv := range fn.FreeVars {
					fmt.Printf("  freevar %s : %s\n", fv.Name(), fv.Type())
				}
				fn.WriteTo(os.Stdout)
			}
		}
		if !found {
			fmt.Fprintln(os.Stderr, "no function", a)
		}
	}
	return 0
}

// cmdCapScan: `govc capscan <pkg>...` lists function literals that store to a captured variable and
// the callees they are handed to (C11 callback purity: which literals need `assigns nothing`).
func cmdCapScan(args []string) int {
	e, err := Load(repoDir, verifDir, args)
	if err != nil {
		fmt.Fprintln(os.Stderr, err)
		return 2
	}
	var ks []string
	for k := range e.Funcs {
		ks = append(ks, k)
	}
	sort.Strings(ks)
	for _, k := range ks {
		fn := e.Funcs[k]
		if fn.Parent() == nil {
			continue
		}
		var writes []string
		for _, fv := range fn.FreeVars {
			for _, r := range *fv.Referrers() {
				if s, ok := r.(*ssa.Store); ok && s.Addr == fv {
					writes = append(writes, fv.Name())
					break
				}
			}
		}
		var to []string
		for _, b := range fn.Parent().Blocks {
			for _, in := range b.Instrs {
				mc, ok := in.(*ssa.MakeClosure)
				if !ok || mc.Fn != fn {
					continue
				}
				for _, r := range *mc.Referrers() {
					if c, ok := r.(ssa.CallInstruction); ok {
						cc := c.Common()
						if cc.IsInvoke() {
							to = append(to, "invoke "+cc.Method.FullName())
						} else if f, ok := cc.Value.(*ssa.Function); ok {
							to = append(to, f.String())
						} else {
							to = append(to, "call "+cc.Value.Name())
						}
					}
				}
			}
		}
		fmt.Printf("%s\twrites=%v\tpassed-to=%v\n", k, writes, to)
	}
	return 0
}
