package main

import "regexp"

// normOrd strips the ordinals of return statements (@rN) and back-edge blocks (@bN) from an obligation name.
// A known finding that carries a REGION applies to the clause at every return / back edge of the function:
// an edit that adds or removes a return statement renumbers them, and the region still delimits the failing
// inputs (each instance is re-proved outside the region). Findings without a region match by exact name only.
var ordRe = regexp.MustCompile(`@[rb]\d+`)

func normOrd(name string) string { return ordRe.ReplaceAllString(name, "") }
