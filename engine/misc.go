package main

// Maps, range iterators, channels, defer.

import (
	"fmt"
	"go/token"
	"go/types"

	"golang.org/x/tools/go/ssa"
)

func mapKeySort(t types.Type) (string, types.Type, types.Type) {
	m := t.Underlying().(*types.Map)
	ks := sortsOf(m.Key())
	if len(ks) != 1 {
		panic(unsupported("map with composite key " + m.Key().String()))
	}
	return ks[0], m.Key(), m.Elem()
}

func mdName(t types.Type) string        { return "MD|" + typeName(t) }
func mlName(t types.Type) string        { return "ML|" + typeName(t) }
func mvName(t types.Type, i int) string { return fmt.Sprintf("MV|%s|%d", typeName(t), i) }

func refOf(v SV) string {
	switch x := v.(type) {
	case Sc:
		return x.T
	case Pt:
		return x.Ref
	}
	panic(unsupported("map/chan value shape"))
}

func (vc *VC) makeMap(x *ssa.MakeMap, st *State) SV {
	ks, _, _ := mapKeySort(x.Type())
	ref := vc.bumpAlloc(st)
	dn := mdName(x.Type())
	ds := fmt.Sprintf("(Array Int (Array %s Bool))", ks)
	d := vc.get(st, dn, ds)
	vc.set(st, dn, ds, vc.define("MD", ds, app("store", d, ref, fmt.Sprintf("((as const (Array %s Bool)) false)", ks))))
	ln := mlName(x.Type())
	l := vc.get(st, ln, "(Array Int Int)")
	vc.set(st, ln, "(Array Int Int)", vc.define("ML", "(Array Int Int)", app("store", l, ref, "0")))
	return Sc{"Int", ref}
}

func (vc *VC) mapLen(t types.Type, ref string, st *State) string {
	l := vc.get(st, mlName(t), "(Array Int Int)")
	r := vc.define("maplen", "Int", app("select", l, ref))
	vc.assume("true", app("<=", "0", r))
	return r
}

func (vc *VC) mapUpdate(x *ssa.MapUpdate, st *State, reach string) {
	t := x.Map.Type()
	ks, _, vt := mapKeySort(t)
	ref := refOf(vc.val(x.Map))
	k := toLeaves(vc.val(x.Key))[0]
	vc.safety("mapnil", reach, sNot(sEq(ref, "0")), x.Pos())
	dn := mdName(t)
	ds := fmt.Sprintf("(Array Int (Array %s Bool))", ks)
	d := vc.get(st, dn, ds)
	had := app("select", app("select", d, ref), k)
	ln := mlName(t)
	l := vc.get(st, ln, "(Array Int Int)")
	vc.set(st, ln, "(Array Int Int)", vc.define("ML", "(Array Int Int)", app("store", l, ref, app("+", app("select", l, ref), sIte(had, "0", "1")))))
	vc.set(st, dn, ds, vc.define("MD", ds, app("store", d, ref, app("store", app("select", d, ref), k, "true"))))
	vl := toLeaves(vc.val(x.Value))
	for i, s := range sortsOf(vt) {
		vn := mvName(t, i)
		vs := fmt.Sprintf("(Array Int (Array %s %s))", ks, s)
		h := vc.get(st, vn, vs)
		vc.set(st, vn, vs, vc.define("MV", vs, app("store", h, ref, app("store", app("select", h, ref), k, vl[i]))))
	}
}

func (vc *VC) mapDelete(c *ssa.CallCommon, st *State, reach string) {
	t := c.Args[0].Type()
	ks, _, _ := mapKeySort(t)
	ref := refOf(vc.val(c.Args[0]))
	k := toLeaves(vc.val(c.Args[1]))[0]
	dn := mdName(t)
	ds := fmt.Sprintf("(Array Int (Array %s Bool))", ks)
	d := vc.get(st, dn, ds)
	had := app("select", app("select", d, ref), k)
	ln := mlName(t)
	l := vc.get(st, ln, "(Array Int Int)")
	vc.set(st, ln, "(Array Int Int)", vc.define("ML", "(Array Int Int)", app("store", l, ref, app("-", app("select", l, ref), sIte(had, "1", "0")))))
	vc.set(st, dn, ds, vc.define("MD", ds, app("store", d, ref, app("store", app("select", d, ref), k, "false"))))
}

func (vc *VC) mapGet(t types.Type, ref, k string, st *State) (SV, string) {
	ks, _, vt := mapKeySort(t)
	ds := fmt.Sprintf("(Array Int (Array %s Bool))", ks)
	d := vc.get(st, mdName(t), ds)
	has := app("select", app("select", d, ref), k)
	var ls []string
	z := toLeaves(zeroSV(vt))
	for i, s := range sortsOf(vt) {
		vs := fmt.Sprintf("(Array Int (Array %s %s))", ks, s)
		h := vc.get(st, mvName(t, i), vs)
		ls = append(ls, sIte(has, app("select", app("select", h, ref), k), z[i]))
	}
	return mkSV(vt, ls), has
}

func (vc *VC) lookup(x *ssa.Lookup, st *State, reach string) SV {
	if _, ok := x.X.Type().Underlying().(*types.Map); !ok {
		// string index
		s := vc.val(x.X).(Sc).T
		idx := vc.val(x.Index).(Sc).T
		vc.safety("index", reach, sAnd(app("<=", "0", idx), app("<", idx, app("slen", s))), x.Pos())
		return Sc{"Int", app("sat", s, idx)}
	}
	t := x.X.Type()
	ref := refOf(vc.val(x.X))
	k := toLeaves(vc.val(x.Index))[0]
	v, has := vc.mapGet(t, ref, k, st)
	_, _, vt := mapKeySort(t)
	vc.assumeType(sAnd(reach, has), vt, v, st)
	if x.CommaOk {
		return St{Typ: x.Type(), F: []SV{v, Sc{"Bool", vc.define("has", "Bool", has)}}}
	}
	return v
}

// rangeInit / next: iteration in an arbitrary duplicate-free order.
type iterSV struct {
	Sc
	typ  types.Type
	ref  string
	name string
}

func (vc *VC) rangeInit(x *ssa.Range, st *State) SV {
	t := x.X.Type()
	if _, ok := t.Underlying().(*types.Map); !ok {
		// range over a string: position advances by the width of the rune at it (1..4 bytes)
		name := "G|strpos." + x.Name()
		vc.set(st, name, "Int", "0")
		return iterSV{Sc: vc.val(x.X).(Sc), typ: t, name: name}
	}
	ks, _, _ := mapKeySort(t)
	name := "G|seen." + x.Name()
	ss := fmt.Sprintf("(Array %s Bool)", ks)
	vc.set(st, name, ss, fmt.Sprintf("((as const (Array %s Bool)) false)", ks))
	return iterSV{Sc: Sc{"Int", refOf(vc.val(x.X))}, typ: t, ref: refOf(vc.val(x.X)), name: name}
}

func (iterSV) isSV() {}

func (vc *VC) next(x *ssa.Next, st *State, reach string) SV {
	it, ok := vc.val(x.Iter).(iterSV)
	if !ok {
		panic(unsupported("next over non-map iterator"))
	}
	if x.IsString {
		s := it.Sc.T
		pos := vc.get(st, it.name, "Int")
		okc := vc.define("more", "Bool", app("<", pos, app("slen", s)))
		vc.assume("true", app("<=", "0", pos))
		r := vc.define("rune", "Int", app("runeAt", s, pos))
		w := vc.define("width", "Int", app("runeWidth", s, pos))
		vc.set(st, it.name, "Int", vc.define("strpos", "Int", sIte(okc, app("+", pos, w), pos)))
		return St{Typ: x.Type(), F: []SV{Sc{"Bool", okc}, Sc{"Int", pos}, Sc{"Int", r}}}
	}
	ks, kt, vt := mapKeySort(it.typ)
	ss := fmt.Sprintf("(Array %s Bool)", ks)
	seen := vc.get(st, it.name, ss)
	okc := vc.fresh("more", "Bool")
	k := vc.fresh("key", ks)
	ds := fmt.Sprintf("(Array Int (Array %s Bool))", ks)
	d := vc.get(st, mdName(it.typ), ds)
	dom := app("select", d, it.ref)
	vc.assume(sAnd(reach, okc), sAnd(app("select", dom, k), sNot(app("select", seen, k))))
	vc.nfresh++
	q := fmt.Sprintf("k!%d", vc.nfresh)
	vc.assume(sAnd(reach, sNot(okc)), fmt.Sprintf("(forall ((%s %s)) (! (=> (select %s %s) (select %s %s)) :pattern ((select %s %s))))", q, ks, dom, q, seen, q, dom, q))
	v, _ := vc.mapGet(it.typ, it.ref, k, st)
	kv := mkSV(kt, []string{k})
	vc.assumeType(sAnd(reach, okc), kt, kv, st)
	vc.assumeType(sAnd(reach, okc), vt, v, st)
	vc.set(st, it.name, ss, vc.define("seen", ss, sIte(okc, app("store", seen, k, "true"), seen)))
	return St{Typ: x.Type(), F: []SV{Sc{"Bool", okc}, kv, v}}
}

// ---- channels, select, defer: effect events ---------------------------------------------------

func (vc *VC) chanSend(x *ssa.Send, st *State, reach string) {
	vc.effect("send", x.Chan, st, reach, x.Pos())
	vc.typedEffect("send", x.Chan, vc.val(x.X), st, reach, x.Pos()) // effects.go
}

func (vc *VC) chanRecv(x *ssa.UnOp, st *State, reach string) SV {
	vc.effect("recv", x.X, st, reach, x.Pos())
	elem := x.X.Type().Underlying().(*types.Chan).Elem()
	v := vc.freshSV("recv", elem)
	vc.assumeType(reach, elem, v, st)
	vc.typedEffect("recv", x.X, v, st, reach, x.Pos()) // effects.go
	if x.CommaOk {
		return St{Typ: x.Type(), F: []SV{v, Sc{"Bool", vc.fresh("recvok", "Bool")}}}
	}
	return v
}

func (vc *VC) chanClose(c *ssa.CallCommon, st *State, reach string) {
	vc.effect("close", c.Args[0], st, reach, c.Pos())
}

func (vc *VC) selectInstr(x *ssa.Select, st *State, reach string) SV {
	// index is arbitrary among the states; received values are arbitrary
	idx := vc.fresh("sel", "Int")
	lo := "0"
	if !x.Blocking {
		lo = "(- 1)"
	}
	vc.assume("true", sAnd(app("<=", lo, idx), app("<", idx, sInt(int64(len(x.States))))))
	fs := []SV{Sc{"Int", idx}, Sc{"Bool", vc.fresh("recvok", "Bool")}}
	vc.set(st, "G|sel", "Int", idx) // effects.go: `$sel`
	for i, s := range x.States {
		arm := sEq(idx, sInt(int64(i)))
		g := sAnd(reach, arm)
		s := s
		// effects.go: ghost-state changes of an arm's effect contract apply only if that arm is taken
		vc.guardedState(st, arm, func() {
			if s.Dir == types.RecvOnly {
				vc.effect("recv", s.Chan, st, g, s.Pos)
				elem := s.Chan.Type().Underlying().(*types.Chan).Elem()
				v := vc.freshSV("recv", elem)
				vc.assumeType(g, elem, v, st)
				vc.typedEffect("recv", s.Chan, v, st, g, s.Pos)
				fs = append(fs, v)
			} else {
				vc.effect("send", s.Chan, st, g, s.Pos)
				vc.typedEffect("send", s.Chan, vc.val(s.Send), st, g, s.Pos)
			}
		})
	}
	return St{Typ: x.Type(), F: fs}
}

func (vc *VC) deferCall(x *ssa.Defer, st *State, reach string) {
	for _, a := range vc.con.Abstract {
		if a == "defer" {
			vc.eng.note("defer in " + vc.key + ": deferred call abstracted away (declared in the contract); its effects are outside the proved clauses")
			return
		}
	}
	if vc.deferLiteral(x) { // captproj.go (x-c17): contract applied at rundefers
		return
	}
	panic(unsupported("defer"))
}

// effect: channel operations are events checked against an effect contract "effect.<kind>(ch)" if one exists.
func (vc *VC) effect(kind string, ch ssa.Value, st *State, guard string, pos token.Pos) {
	con := vc.eng.CS.Contracts["effect."+kind]
	if con == nil {
		vc.eng.note("channel " + kind + " in " + vc.key + ": no effect contract, treated as a no-op event")
		return
	}
	n := vc.callN["effect."+kind]
	vc.callN["effect."+kind] = n + 1
	vc.applyContract(con, "effect."+kind, n, []SV{vc.val(ch)}, st, guard, types.NewTuple(), pos)
}
