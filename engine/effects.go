package main

// Effect/ownership extensions (worker w-c17, properties C17 and C11).
//
//   //@ fnfield engine.watcher.cancel = (*engine.Engine).Observe$1
//         struct invariant "this func-typed field always holds a closure of that function literal":
//         a call through a value loaded from the field is treated as a call of the literal's CONTRACT
//         (its requires become obligations pre@...); every Store to the field must store a closure
//         of exactly that literal (obligation fnfield.<field>#n). The target may also be an `extern`
//         pseudo-function; if it has one parameter more than the call passes, the first parameter is
//         bound to the struct pointer the function value was loaded from ("self").
//   //@ actorchan engine.Engine.removeWatcher receiver engine.Start$1
//         the channel stored in that field is received from only inside the named function. Checked
//         syntactically over the SSA of every repo function (loads of the field may only be used as
//         channel operands; receives only in the named function; stores only of fresh make(chan)).
//         Every value loaded from the field then satisfies the prelude predicate actorOnly(v).
//   //@ guarded rel.GenericTuple.names by orderNamesOnce          (sibling field of type sync.Once / sync.Mutex)
//   //@ guarded syntax.stdScopeVar by stdScopeOnce                (package-level variables)
//         every Store to the field / variable yields the obligation guard.<field>#n "the guard is held":
//         sync.Once: held for the whole activation of a function literal whose every use is as the
//           argument of <obj>.<guard>.Do(lit), for the object it captured (assumed at the literal's entry);
//         sync.Mutex: held between <obj>.<guard>.Lock() and .Unlock() in the same function.
//         Every Load of the field yields guard.read.<field>#n: guard held, or a call <obj>.<guard>.Do(..)
//         has completed earlier in this function (sync.Once gives happens-before to its return).
//   loop k ensures[..] label: <expr>     per-iteration postcondition: checked at every back edge of loop k,
//         never assumed. Go locals are resolved at the back edge's source block (so locals of one select
//         arm can be named); a back edge where some name does not resolve is skipped (noted). `prev(e)`
//         is e in the state at the loop header of the same iteration; `$sel` is the index of the case
//         taken by the most recent select.
//   typed channel effects: besides `effect.send/recv/close(ch)`, a contract `effect.send.<elem>(ch, v)`
//         / `effect.recv.<elem>(ch, v)` (elem = name of the element type, pointers stripped) sees the value.
//   fnparam * opaque      calls through function values: result unconstrained, writes nothing that existed
//         (assumption about client callbacks, listed in the notes), instead of havocking all state.
//   captured variables: with `assigns nothing|fresh-only` a write to a captured variable (free variable
//         cell) fails the frame obligation frame.captured.<name>.

import (
	"fmt"
	"go/ast"
	"go/token"
	"go/types"
	"sort"
	"strconv"
	"strings"

	"golang.org/x/tools/go/ssa"
)

type effectDecls struct {
	FnFields   map[string]string
	ActorChans map[string]string
	Guarded    map[string]string
	Order      []string
}

func (d *effectDecls) parse(t, pkg string) error {
	fs := strings.Fields(t)
	qual := func(s string) string {
		// fields are written pkg.Type.field (or Type.field inside a package file)
		if pkg != "" && strings.Count(s, ".") == 1 && fs[0] != "guarded" {
			return pkg + "." + s
		}
		return s
	}
	switch fs[0] {
	case "fnfield":
		if len(fs) < 4 || fs[2] != "=" {
			return fmt.Errorf("bad fnfield (want: fnfield pkg.Type.field = <contract key>): %s", t)
		}
		if d.FnFields == nil {
			d.FnFields = map[string]string{}
		}
		d.FnFields[qual(fs[1])] = strings.Join(fs[3:], " ")
	case "actorchan":
		if len(fs) != 4 || fs[2] != "receiver" {
			return fmt.Errorf("bad actorchan (want: actorchan pkg.Type.field receiver <func key>): %s", t)
		}
		if d.ActorChans == nil {
			d.ActorChans = map[string]string{}
		}
		d.ActorChans[qual(fs[1])] = fs[3]
	case "guarded":
		if len(fs) != 4 || fs[2] != "by" {
			return fmt.Errorf("bad guarded (want: guarded pkg.Type.field by <guard field>): %s", t)
		}
		if d.Guarded == nil {
			d.Guarded = map[string]string{}
		}
		d.Guarded[fs[1]] = fs[3]
	}
	d.Order = append(d.Order, t)
	return nil
}

// ---- field keys ---------------------------------------------------------------------------------

func namedStructOf(t types.Type) (*types.Named, *types.Struct) {
	if p, ok := t.Underlying().(*types.Pointer); ok {
		t = p.Elem()
	}
	n, ok := t.(*types.Named)
	if !ok {
		return nil, nil
	}
	s, ok := n.Underlying().(*types.Struct)
	if !ok {
		return nil, nil
	}
	return n, s
}

// fieldKeyOfAddr: "engine.watcher.cancel" for &x.cancel, plus the base pointer.
func fieldKeyOfAddr(v ssa.Value) (string, ssa.Value, bool) {
	fa, ok := v.(*ssa.FieldAddr)
	if !ok {
		return "", nil, false
	}
	n, s := namedStructOf(fa.X.Type())
	if n == nil {
		return "", nil, false
	}
	return typeKey(n) + "." + s.Field(fa.Field).Name(), fa.X, true
}

func globalKey(g *ssa.Global) string { return pkgKey(g.Pkg.Pkg) + "." + g.Name() }

// ptFieldKey: key of the field a heap pointer designates (first path element under the root struct).
func ptFieldKey(p Pt) (string, bool) {
	if p.Kind == "global" {
		if g, ok := p.Local.(*ssa.Global); ok {
			return globalKey(g), true
		}
		return "", false
	}
	if p.Kind != "heap" || len(p.Path) == 0 || p.Root == nil {
		return "", false
	}
	n, s := namedStructOf(p.Root)
	if n == nil {
		return "", false
	}
	return typeKey(n) + "." + s.Field(p.Path[0]).Name(), true
}

// ---- fnfield ------------------------------------------------------------------------------------

func (vc *VC) fnFieldCall(c *ssa.CallCommon, st *State, reach string, resT types.Type) (SV, bool) {
	ld, ok := c.Value.(*ssa.UnOp)
	if !ok || ld.Op != token.MUL {
		return nil, false
	}
	key, base, ok := fieldKeyOfAddr(ld.X)
	if !ok {
		return nil, false
	}
	target, ok := vc.eng.CS.Decls.FnFields[key]
	if !ok {
		return nil, false
	}
	con := vc.eng.CS.Contracts[target]
	if con == nil {
		panic(specErr("fnfield " + key + ": no contract " + target))
	}
	f := vc.val(c.Value).(Sc).T
	vc.safety("nilfn", reach, sNot(sEq(f, "nilFn")), c.Pos())
	var args []SV
	if len(con.Params) == len(c.Args)+1 {
		args = append(args, vc.val(base))
	}
	for _, a := range c.Args {
		args = append(args, vc.val(a))
	}
	n := vc.callN[target]
	vc.callN[target] = n + 1
	vc.eng.note("call through field " + key + " in " + vc.key + ": uses the contract of " + target + " (fnfield struct invariant, checked at every store to the field)")
	vc.curTerms = vc.fieldCallTerms(target, f) // captproj.go (x-c17): captured variables = projections of the function value
	return vc.applyContract(con, target, n, args, st, reach, resT, c.Pos()), true
}

// storeHook runs before every Store instruction.
func (vc *VC) storeHook(x *ssa.Store, st *State, reach string) {
	d := &vc.eng.CS.Decls
	if key, _, ok := fieldKeyOfAddr(x.Addr); ok {
		if target, ok := d.FnFields[key]; ok {
			good := false
			if mc, isMC := x.Val.(*ssa.MakeClosure); isMC {
				good = funcKey(mc.Fn.(*ssa.Function)) == target
			}
			if f, isF := x.Val.(*ssa.Function); isF {
				good = funcKey(f) == target
			}
			n := vc.ord["fnfield."+key]
			vc.ord["fnfield."+key] = n + 1
			goal := "false"
			if good {
				goal = "true"
			}
			vc.oblige("fnfield", fmt.Sprintf("fnfield.%s#%d", key, n), nil, reach, goal, "fnfield "+key+" = "+target, x.Pos())
		}
	}
	vc.guardStore(x, st, reach)
}

// ---- actorchan ------------------------------------------------------------------------------------

// checkActorChans: syntactic check of every actorchan declaration over all repo functions.
func (e *Engine) checkActorChans() []string {
	var bad []string
	d := e.CS.Decls
	if len(d.ActorChans) == 0 {
		return nil
	}
	var keys []string
	for k := range e.Funcs {
		keys = append(keys, k)
	}
	sort.Strings(keys)
	for _, fk := range keys {
		fn := e.Funcs[fk]
		for _, b := range fn.Blocks {
			for _, in := range b.Instrs {
				switch x := in.(type) {
				case *ssa.Store:
					if key, _, ok := fieldKeyOfAddr(x.Addr); ok {
						if _, decl := d.ActorChans[key]; decl {
							if _, isMk := x.Val.(*ssa.MakeChan); !isMk {
								bad = append(bad, fmt.Sprintf("%s: store to actorchan %s of a value that is not a fresh make(chan)", fk, key))
							}
						}
					}
				case *ssa.UnOp:
					if x.Op != token.MUL {
						continue
					}
					key, _, ok := fieldKeyOfAddr(x.X)
					if !ok {
						continue
					}
					recvFn, decl := d.ActorChans[key]
					if !decl {
						continue
					}
					for _, r := range *x.Referrers() {
						switch u := r.(type) {
						case *ssa.DebugRef:
						case *ssa.Send:
							if u.Chan != x {
								bad = append(bad, fmt.Sprintf("%s: actorchan %s escapes (sent as a value)", fk, key))
							}
						case *ssa.UnOp:
							if u.Op == token.ARROW && fk != recvFn {
								bad = append(bad, fmt.Sprintf("%s: receives from actorchan %s (declared receiver %s)", fk, key, recvFn))
							}
						case *ssa.Select:
							for _, s := range u.States {
								if s.Chan == x && s.Dir == types.RecvOnly && fk != recvFn {
									bad = append(bad, fmt.Sprintf("%s: receives from actorchan %s (declared receiver %s)", fk, key, recvFn))
								}
								if s.Send == x {
									bad = append(bad, fmt.Sprintf("%s: actorchan %s escapes (sent as a value)", fk, key))
								}
							}
						default:
							bad = append(bad, fmt.Sprintf("%s: actorchan %s escapes (%T)", fk, key, r))
						}
					}
				}
			}
		}
	}
	return bad
}

// loadHook: facts about a value just loaded through pointer pv.
func (vc *VC) loadHook(pv Pt, v SV, st *State, reach string, pos token.Pos) {
	d := &vc.eng.CS.Decls
	key, ok := ptFieldKey(pv)
	if !ok {
		return
	}
	if _, decl := d.ActorChans[key]; decl && len(pv.Path) == 1 {
		if !vc.eng.actorChecked {
			vc.eng.actorChecked = true
			vc.eng.actorBad = vc.eng.checkActorChans()
		}
		if len(vc.eng.actorBad) > 0 {
			panic(specErr("actorchan declaration violated: " + strings.Join(vc.eng.actorBad, "; ")))
		}
		if s, isSc := v.(Sc); isSc {
			vc.assume(reach, app("actorOnly", s.T))
			vc.eng.note("actorchan " + key + ": receivers checked syntactically; values loaded from the field are assumed actorOnly")
		}
	}
}

// ---- guarded --------------------------------------------------------------------------------------

// guardOf: for a pointer to a guarded field/global: (decl key, guard name, object ref term).
func (vc *VC) guardOf(p Pt) (string, string, string, bool) {
	key, ok := ptFieldKey(p)
	if !ok {
		return "", "", "", false
	}
	g, ok := vc.eng.CS.Decls.Guarded[key]
	if !ok {
		return "", "", "", false
	}
	if p.Kind == "global" {
		return key, key[:strings.LastIndex(key, ".")] + "." + g, "0", true
	}
	return key, key[:strings.LastIndex(key, ".")] + "." + g, p.Ref, true
}

func (vc *VC) heldFn(guardKey string) string {
	n := "heldOnce." + sanitize(guardKey)
	vc.declareFun(n, []string{"Int"}, "Bool")
	return n
}

func (vc *VC) doneFn(guardKey string) string {
	n := "doneOnce." + sanitize(guardKey)
	vc.declareFun(n, []string{"Int"}, "Bool")
	return n
}

func lockVar(guardKey string) string { return "G|locked." + guardKey }

func (vc *VC) heldTerm(guardKey, ref string, st *State) string {
	locked := vc.get(st, lockVar(guardKey), "(Array Int Bool)")
	return sOr(app(vc.heldFn(guardKey), ref), app("select", locked, ref))
}

func (vc *VC) guardStore(x *ssa.Store, st *State, reach string) {
	if len(vc.eng.CS.Decls.Guarded) == 0 {
		return
	}
	p, ok := vc.val(x.Addr).(Pt)
	if !ok {
		return
	}
	key, gk, ref, ok := vc.guardOf(p)
	if !ok {
		return
	}
	n := vc.ord["guard."+key]
	vc.ord["guard."+key] = n + 1
	vc.oblige("guard", fmt.Sprintf("guard.%s#%d", key, n), []string{"C11"}, reach, vc.heldTerm(gk, ref, st),
		"store to "+key+" only while "+gk+" is held", x.Pos())
}

func (vc *VC) guardLoad(p Pt, st *State, reach string, pos token.Pos) {
	if len(vc.eng.CS.Decls.Guarded) == 0 || vc.dry > 0 {
		return
	}
	key, gk, ref, ok := vc.guardOf(p)
	if !ok {
		return
	}
	n := vc.ord["guard.read."+key]
	vc.ord["guard.read."+key] = n + 1
	vc.oblige("guard", fmt.Sprintf("guard.read.%s#%d", key, n), []string{"C11"}, reach,
		sOr(vc.heldTerm(gk, ref, st), app(vc.doneFn(gk), ref)),
		"read of "+key+" only while "+gk+" is held or after its Do has returned", pos)
}

// guardRecv: for a call of (*sync.Once).Do / (*sync.Mutex).Lock / Unlock: the guard key and object ref
// of the receiver expression (a field address or a package-level variable).
func (vc *VC) guardRecv(recv ssa.Value) (string, string, bool) {
	if key, base, ok := fieldKeyOfAddr(recv); ok {
		if p, isPt := vc.val(base).(Pt); isPt && p.Kind == "heap" {
			return key, p.Ref, true
		}
		return "", "", false
	}
	if g, ok := recv.(*ssa.Global); ok {
		return globalKey(g), "0", true
	}
	return "", "", false
}

// syncCall: effect of sync.Once.Do / Mutex.Lock / Unlock on the guard state. Called for every static call.
func (vc *VC) syncCall(callee *ssa.Function, c *ssa.CallCommon, st *State, reach string) {
	if callee == nil || len(vc.eng.CS.Decls.Guarded) == 0 || len(c.Args) == 0 {
		return
	}
	name := callee.String()
	switch name {
	case "(*sync.Once).Do":
		if gk, ref, ok := vc.guardRecv(c.Args[0]); ok {
			vc.assume(reach, app(vc.doneFn(gk), ref))
		}
		vc.onceEstablished(c, st, reach) // onceinv.go (x-c17): once-clauses of the registered literal
	case "(*sync.Mutex).Lock", "(*sync.RWMutex).Lock":
		if gk, ref, ok := vc.guardRecv(c.Args[0]); ok {
			l := vc.get(st, lockVar(gk), "(Array Int Bool)")
			vc.set(st, lockVar(gk), "(Array Int Bool)", vc.define("locked", "(Array Int Bool)", app("store", l, ref, "true")))
		}
	case "(*sync.Mutex).Unlock", "(*sync.RWMutex).Unlock":
		if gk, ref, ok := vc.guardRecv(c.Args[0]); ok {
			l := vc.get(st, lockVar(gk), "(Array Int Bool)")
			vc.set(st, lockVar(gk), "(Array Int Bool)", vc.define("locked", "(Array Int Bool)", app("store", l, ref, "false")))
		}
	}
}

// onceLiteralEntry: if every use of this function literal is as the argument of X.G.Do(lit), assume at
// entry that G is held for X (X = a captured variable of the literal, or a package-level Once).
func (vc *VC) onceLiteralEntry(st *State) {
	fn := vc.fn
	par := fn.Parent()
	if par == nil || len(vc.eng.CS.Decls.Guarded) == 0 {
		return
	}
	type use struct {
		gk   string
		fvIx int // index of the free variable holding the object, -1 for globals
		ref  bool
	}
	var uses []use
	nmc := 0
	for _, b := range par.Blocks {
		for _, in := range b.Instrs {
			mc, ok := in.(*ssa.MakeClosure)
			if !ok || mc.Fn != fn {
				continue
			}
			nmc++
			for _, r := range *mc.Referrers() {
				if _, isDbg := r.(*ssa.DebugRef); isDbg {
					continue
				}
				call, ok := r.(*ssa.Call)
				if !ok {
					return
				}
				cf, ok := call.Call.Value.(*ssa.Function)
				if !ok || cf.String() != "(*sync.Once).Do" || len(call.Call.Args) != 2 || call.Call.Args[1] != mc {
					return
				}
				recv := call.Call.Args[0]
				if g, isG := recv.(*ssa.Global); isG {
					uses = append(uses, use{globalKey(g), -1, false})
					continue
				}
				key, base, ok := fieldKeyOfAddr(recv)
				if !ok {
					return
				}
				found := false
				for i, bnd := range mc.Bindings {
					if bnd == base {
						uses = append(uses, use{key, i, false})
						found = true
					} else if ld, isLd := base.(*ssa.UnOp); isLd && ld.Op == token.MUL && ld.X == bnd {
						uses = append(uses, use{key, i, true})
						found = true
					}
				}
				if !found {
					return
				}
			}
		}
	}
	// a literal without captured variables is used as a plain function value
	for _, b := range par.Blocks {
		for _, in := range b.Instrs {
			if _, isDbg := in.(*ssa.DebugRef); isDbg {
				continue
			}
			if _, isMC := in.(*ssa.MakeClosure); isMC {
				continue // handled above
			}
			var rands [10]*ssa.Value
			for _, op := range in.Operands(rands[:0]) {
				if op == nil || *op != ssa.Value(fn) {
					continue
				}
				nmc++
				call, ok := in.(*ssa.Call)
				if !ok {
					return
				}
				cf, ok := call.Call.Value.(*ssa.Function)
				if !ok || cf.String() != "(*sync.Once).Do" || len(call.Call.Args) != 2 || call.Call.Args[1] != ssa.Value(fn) {
					return
				}
				g, isG := call.Call.Args[0].(*ssa.Global)
				if !isG {
					return
				}
				uses = append(uses, use{globalKey(g), -1, false})
			}
		}
	}
	if nmc == 0 || len(uses) == 0 {
		return
	}
	for _, u := range uses {
		ref := "0"
		if u.fvIx >= 0 {
			fv := fn.FreeVars[u.fvIx]
			var v SV
			if u.ref {
				v = st.locals[fv]
			} else {
				v = vc.vals[fv]
			}
			p, ok := v.(Pt)
			if !ok || p.Kind != "heap" {
				continue
			}
			ref = p.Ref
		}
		vc.assume("true", app(vc.heldFn(u.gk), ref))
		vc.eng.note("function literal " + vc.key + " is only ever passed to " + u.gk + ".Do: the guard is held during its activation")
	}
}

// ---- captured variables in the frame ----------------------------------------------------------------

func (vc *VC) capturedFrame(reach string, st *State, suffix string) {
	con := vc.con
	if con.Assigns != "nothing" && con.Assigns != "fresh-only" {
		return
	}
	for _, fv := range vc.fn.FreeVars {
		cur, ok := st.locals[fv]
		if !ok {
			continue
		}
		init, ok := vc.st0.locals[fv]
		if !ok {
			continue
		}
		if vc.modifiable(fv.Name()) {
			continue
		}
		lc, li := toLeaves(cur), toLeaves(init)
		same := true
		for i := range lc {
			if lc[i] != li[i] {
				same = false
			}
		}
		if same {
			continue
		}
		props := append([]string{"C11"}, con.frameProps()...)
		vc.oblige("frame", "frame.captured."+fv.Name()+suffix, props, reach, eqSV(cur, init),
			"assigns "+con.Assigns+": captured variable "+fv.Name()+" must not be written", token.NoPos)
	}
}

// ---- loop k ensures / prev / $sel ----------------------------------------------------------------------

type headerSnap struct {
	h    *ssa.BasicBlock
	st   *State
	phis map[*ssa.Phi]SV
}

func (vc *VC) snapHeader(h *ssa.BasicBlock, st *State) {
	if vc.hdr == nil {
		vc.hdr = map[*ssa.BasicBlock]*headerSnap{}
	}
	s := &headerSnap{h: h, st: st.clone(), phis: map[*ssa.Phi]SV{}}
	for _, in := range h.Instrs {
		phi, ok := in.(*ssa.Phi)
		if !ok {
			break
		}
		s.phis[phi] = vc.vals[phi]
	}
	vc.hdr[h] = s
}

type unresolved string

// iterEnsures: check the `loop k ensures` clauses at the back edge from -> h.
func (vc *VC) iterEnsures(from, h *ssa.BasicBlock, cond string, st *State, suffix string) {
	li := vc.loops[h]
	for _, c := range vc.con.IterEns {
		if c.Loop != li.index {
			continue
		}
		name := fmt.Sprintf("iter.%d.%s%s", li.index, c.Label, suffix)
		func() {
			defer func() {
				if r := recover(); r != nil {
					if u, ok := r.(unresolved); ok {
						vc.eng.note(fmt.Sprintf("%s: %s not checked at the back edge from block %d (%s is not in scope there)", vc.key, name, from.Index, string(u)))
						return
					}
					panic(r)
				}
			}()
			env := vc.newEnv(st, vc.st0, h)
			env.from = from
			env.prevOf = vc.hdr[h]
			goal := vc.evalBool(env, c.Expr)
			vc.oblige("iter", name, c.Props, cond, goal, c.Text, token.NoPos)
			vc.iterChecked[c] = true
		}()
	}
}

// resolveAt: Go local by source name as visible at the end of block b (debug refs of b and its dominators).
func (vc *VC) resolveAt(name string, b *ssa.BasicBlock) SV {
	for d := b; d != nil; d = d.Idom() {
		for i := len(d.Instrs) - 1; i >= 0; i-- {
			if dr, ok := d.Instrs[i].(*ssa.DebugRef); ok && !dr.IsAddr {
				if id, ok := dr.Expr.(*ast.Ident); ok && id.Name == name {
					if v, ok := vc.vals[dr.X]; ok {
						return vc.typedSV(v, dr.X.Type())
					}
					if c, ok := dr.X.(*ssa.Const); ok {
						return vc.constSV(c)
					}
				}
			}
		}
		// a variable re-assigned in a loop or branch that ended before b lives in a phi of a dominator (go/ssa names
		// the phi after the variable); without this the stale value of an outer dominator would be taken.
		for _, in := range d.Instrs {
			phi, ok := in.(*ssa.Phi)
			if !ok {
				break
			}
			if phi.Comment == name {
				if v, ok := vc.vals[phi]; ok {
					return vc.typedSV(v, phi.Type())
				}
			}
		}
	}
	return nil
}

// typedSV: map-typed values become mapSV so that m[k], has(m,k), len(m) work in specifications.
func (vc *VC) typedSV(v SV, t types.Type) SV {
	if _, ok := t.Underlying().(*types.Map); ok {
		switch x := v.(type) {
		case Sc:
			return mapSV{Sc: x, typ: t, ref: x.T}
		}
	}
	return v
}

// ---- typed channel effects -------------------------------------------------------------------------------

func elemShort(t types.Type) string {
	for {
		p, ok := t.(*types.Pointer)
		if !ok {
			break
		}
		t = p.Elem()
	}
	if n, ok := t.(*types.Named); ok {
		return n.Obj().Name()
	}
	if b, ok := t.(*types.Basic); ok {
		return b.Name()
	}
	return ""
}

func (vc *VC) typedEffect(kind string, ch ssa.Value, v SV, st *State, guard string, pos token.Pos) {
	elem := ch.Type().Underlying().(*types.Chan).Elem()
	s := elemShort(elem)
	if s == "" {
		return
	}
	key := "effect." + kind + "." + s
	con := vc.eng.CS.Contracts[key]
	if con == nil {
		return
	}
	n := vc.callN[key]
	vc.callN[key] = n + 1
	vc.applyContract(con, key, n, []SV{vc.val(ch), v}, st, guard, types.NewTuple(), pos)
}

// guardedState: run f on st; afterwards every state variable it changed keeps its old value unless cond holds.
func (vc *VC) guardedState(st *State, cond string, f func()) {
	pre := st.clone()
	f()
	if st.epoch != pre.epoch {
		return // everything was havocked anyway
	}
	var ks []string
	for k := range st.vars {
		ks = append(ks, k)
	}
	sort.Strings(ks)
	for _, k := range ks {
		nv := st.vars[k]
		ov := vc.get(pre, k, vc.svSort[k])
		if nv != ov {
			st.vars[k] = vc.define(k+"@sel", vc.svSort[k], sIte(cond, nv, ov))
		}
	}
}

// ---- capture-time preconditions ------------------------------------------------------------------------
//
// A `requires` clause of a function literal whose label starts with "captured" speaks only about
// captured variables that are never written after the closure is created. It is checked where the
// closure is created (obligation pre@<literal>.<label> in the parent) and assumed by the literal; it is
// not re-checked at calls (at a call through a struct field the captured variables are not known).

func isCapturedClause(c *Clause) bool { return strings.HasPrefix(c.Label, "captured") }

func (vc *VC) makeClosureHook(mc *ssa.MakeClosure, st *State, reach string) {
	fn := mc.Fn.(*ssa.Function)
	key := funcKey(fn)
	con := vc.eng.CS.Contracts[key]
	if con == nil {
		return
	}
	any := false
	for _, r := range con.Requires {
		if isCapturedClause(r) {
			any = true
		}
	}
	if !any {
		return
	}
	// captured-by-reference variables must be write-once cells: one store in the parent, none in the literal
	for i, b := range mc.Bindings {
		a, ok := b.(*ssa.Alloc)
		if !ok {
			continue
		}
		stores := 0
		for _, r := range *a.Referrers() {
			if s, isSt := r.(*ssa.Store); isSt && s.Addr == a {
				stores++
			}
		}
		for _, r := range *fn.FreeVars[i].Referrers() {
			if s, isSt := r.(*ssa.Store); isSt && s.Addr == fn.FreeVars[i] {
				stores += 2
			}
		}
		if stores > 1 {
			panic(specErr(fmt.Sprintf("%s: captured-time precondition on a literal whose captured variable %s is reassigned", key, fn.FreeVars[i].Name())))
		}
	}
	env := vc.newEnv(st, st, nil)
	env.local = false
	env.ownFn = false
	env.fvBind = closureBindings(mc)
	env.pkg = con.Pkg
	n := vc.callN["mk."+key]
	vc.callN["mk."+key] = n + 1
	for _, r := range con.Requires {
		if isCapturedClause(r) {
			props := r.Props
			if len(props) == 0 {
				props = vc.con.Tags
			}
			vc.oblige("pre", fmt.Sprintf("pre@%s#mk%d.%s", key, n, r.Label), props, reach, vc.evalBool(env, r.Expr), r.Text, mc.Pos())
		}
	}
}

// makeChanHook: a channel made here and not stored into an actorchan field is not actor-only.
func (vc *VC) makeChanHook(x *ssa.MakeChan, ref string, reach string) {
	d := &vc.eng.CS.Decls
	if len(d.ActorChans) == 0 {
		return
	}
	for _, r := range *x.Referrers() {
		if s, ok := r.(*ssa.Store); ok && s.Val == x {
			if key, _, ok := fieldKeyOfAddr(s.Addr); ok {
				if _, decl := d.ActorChans[key]; decl {
					return
				}
			}
		}
	}
	vc.assume(reach, sNot(app("actorOnly", ref)))
}

// fnresult("<key>", args...): the result of the pure function <key> on these arguments (the same
// uninterpreted function the engine uses at calls of a `pure` contract).
func (e *Env) fnResult(n ECall) SV {
	vc := e.vc
	ks, ok := n.Args[0].(EStr)
	if !ok {
		e.fail("fnresult needs the function key as a string literal")
	}
	key := ks.V
	con := vc.eng.CS.Contracts[key]
	fn := vc.eng.Funcs[key]
	if con == nil || !con.Pure || fn == nil {
		e.fail("fnresult(%q): not a function with a `pure` contract", key)
	}
	var ls, sorts []string
	for _, a := range n.Args[1:] {
		v := e.eval(a)
		ls = append(ls, toLeaves(v)...)
		sorts = append(sorts, svSorts(v)...)
	}
	resT := fn.Signature.Results()
	var rt types.Type = resT
	if resT.Len() == 1 {
		rt = resT.At(0).Type()
	}
	rs := sortsOf(rt)
	out := make([]string, len(rs))
	for i := range rs {
		f := fmt.Sprintf("uf.%s.%d", sanitize(key), i)
		vc.declareFun(f, sorts, rs[i])
		out[i] = app(f, ls...)
	}
	return mkSV(rt, out)
}

// freeVarType: type of the captured variable `name` (for typedSV).
func (e *Env) freeVarType(name string) types.Type {
	if e.fvBind != nil {
		if b, ok := e.fvBind[name]; ok {
			if p, isPtr := b.Type().Underlying().(*types.Pointer); isPtr {
				return p.Elem()
			}
			return b.Type()
		}
		return nil
	}
	if e.vc.fn != nil {
		for _, fv := range e.vc.fn.FreeVars {
			if fv.Name() == name {
				if p, isPtr := fv.Type().Underlying().(*types.Pointer); isPtr {
					return p.Elem()
				}
				return fv.Type()
			}
		}
	}
	return nil
}

// isIterGhost: engine-internal bookkeeping state (range cursors, select index, lock state) is not part of the frame.
func isIterGhost(k string) bool {
	return strings.HasPrefix(k, "G|seen.") || strings.HasPrefix(k, "G|strpos.") || k == "G|sel" || strings.HasPrefix(k, "G|locked.") || strings.HasPrefix(k, "G|lastcall.")
}

// ---- lastcall("<key>", i): argument i of the most recent call of the function <key> ---------------------
// Calls of functions named in some lastcall(...) of any contract are recorded in engine ghost state.

func (e *Engine) recordedCalls() map[string]bool {
	if e.recCalls != nil {
		return e.recCalls
	}
	e.recCalls = map[string]bool{}
	for _, c := range e.CS.Order {
		for _, cls := range [][]*Clause{c.Requires, c.Ensures, c.Invs, c.IterEns} {
			for _, cl := range cls {
				t := cl.Text
				for {
					i := strings.Index(t, `lastcall("`)
					if i < 0 {
						break
					}
					t = t[i+len(`lastcall("`):]
					if j := strings.Index(t, `"`); j >= 0 {
						e.recCalls[t[:j]] = true
					}
				}
			}
		}
	}
	return e.recCalls
}

func (vc *VC) recordCall(key string, args []SV, st *State) {
	if !vc.eng.recordedCalls()[key] {
		return
	}
	for i, a := range args {
		ls, ok := safeLeaves(a)
		if !ok {
			continue
		}
		if vc.lastShape == nil {
			vc.lastShape = map[string]SV{}
		}
		vc.lastShape[fmt.Sprintf("%s.%d", key, i)] = a // shape (sorts, element type) of the argument, for callees outside the repository
		sorts := svSorts(a)
		for j, l := range ls {
			vc.set(st, fmt.Sprintf("G|lastcall.%s.%d.%d", key, i, j), sorts[j], l)
		}
	}
}

func safeLeaves(v SV) (ls []string, ok bool) {
	defer func() {
		if recover() != nil {
			ok = false
		}
	}()
	return toLeaves(v), true
}

func (e *Env) lastCall(n ECall) SV {
	vc := e.vc
	ks, ok := n.Args[0].(EStr)
	if !ok || len(n.Args) != 2 {
		e.fail(`lastcall("<key>", i)`)
	}
	idx, err := strconv.Atoi(n.Args[1].(EInt).V)
	fn := vc.eng.Funcs[ks.V]
	if err == nil && fn == nil {
		// a dependency function (extern contract): the argument has the shape recorded at its most recent call in this function
		if shape, ok := vc.lastShape[fmt.Sprintf("%s.%d", ks.V, idx)]; ok {
			sorts := svSorts(shape)
			ls := make([]string, len(sorts))
			for j, s := range sorts {
				ls[j] = vc.get(e.st, fmt.Sprintf("G|lastcall.%s.%d.%d", ks.V, idx, j), s)
			}
			return rebuildLike(shape, ls)
		}
	}
	if err != nil || fn == nil || idx >= len(fn.Params) {
		e.fail("lastcall: unknown function or parameter index")
	}
	t := fn.Params[idx].Type()
	sorts := sortsOf(t)
	ls := make([]string, len(sorts))
	for j, s := range sorts {
		ls[j] = vc.get(e.st, fmt.Sprintf("G|lastcall.%s.%d.%d", ks.V, idx, j), s)
	}
	return mkSV(t, ls)
}
