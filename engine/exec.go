package main

import (
	"fmt"
	"go/constant"
	"go/token"
	"go/types"
	"math"
	"sort"
	"strings"

	"golang.org/x/tools/go/ssa"
)

func newVC(e *Engine, fn *ssa.Function, con *Contract, key string) *VC {
	return &VC{eng: e, fn: fn, con: con, key: key, decl: map[string]bool{}, vals: map[ssa.Value]SV{},
		reach: map[*ssa.BasicBlock]string{}, edges: map[*ssa.BasicBlock][]edge{}, exitSt: map[*ssa.BasicBlock]*State{},
		params: map[string]SV{}, svSort: map[string]string{}, ord: map[string]int{}, callN: map[string]int{},
		strc: map[string]string{}, writes: map[string]bool{}, wlocal: map[interface{}]bool{},
		decAt: map[*ssa.BasicBlock][]string{}, tagUsed: map[int]bool{}, implUsed: map[string]bool{}}
}

// GenFunc generates the obligations of one function under contract.
func (e *Engine) genFuncOnce(key string, con *Contract) (vc *VC, err error) {
	fn := e.Funcs[key]
	if fn == nil {
		return nil, fmt.Errorf("%s:%d: contract for unknown function %s", con.File, con.Line, key)
	}
	if len(fn.Blocks) == 0 {
		return nil, fmt.Errorf("function %s has no body", key)
	}
	if hasAbstract(con, "body") && staticOnlyContract(con) { // authflow.go (w-c18): unit checked by the static authority analysis only
		return e.genStaticUnit(key, con)
	}
	vc = newVC(e, fn, con, key)
	defer func() {
		if r := recover(); r != nil {
			if u, ok := r.(unsupportedErr); ok {
				vc.failed = u.msg + " at " + vc.posStr(vc.curPos)
				vc.dry = 0
				vc.oblige("unsupported", "unsupported#0", con.Tags, "true", "false", "construct outside the verified subset: "+vc.failed, vc.curPos)
				return
			}
			if s, ok := r.(specErr); ok {
				err = fmt.Errorf("%s: %s", key, string(s))
				return
			}
			panic(r)
		}
	}()
	vc.run()
	vc.authPublish() // authflow.go (w-c18)
	return vc, nil
}

func (vc *VC) run() {
	fn, con := vc.fn, vc.con
	vc.analyseCFG()
	st := &State{vars: map[string]string{}, locals: map[interface{}]SV{}}
	vc.st0 = st.clone()
	a0 := vc.allocTerm(vc.st0)
	vc.assume("true", app("<=", "1", a0))
	// parameters
	nparams := len(fn.Params)
	if len(con.Params) == 1 && con.Params[0] == "*" { // w-c18: header `func f(*)` binds no parameter names
		con.Params = make([]string, nparams)
		for i := range con.Params {
			con.Params[i] = fmt.Sprintf("p%d", i)
		}
	}
	if len(con.Params) != nparams {
		panic(specErr(fmt.Sprintf("%s:%d: contract binds %d parameters, function has %d", con.File, con.Line, len(con.Params), nparams)))
	}
	for i, p := range fn.Params {
		v := vc.freshSV("p."+con.Params[i], p.Type())
		vc.vals[p] = v
		vc.params[con.Params[i]] = vc.typedSV(v, p.Type()) // w-c04: map-typed parameters usable with has()/m[k]
		vc.assumeType("true", p.Type(), v, vc.st0)
	}
	for _, fv := range fn.FreeVars {
		// captured variables are pointers to the variable; model the variable as a local cell
		pt, ok := fv.Type().(*types.Pointer)
		if !ok {
			v := vc.freshSV("fv."+fv.Name(), fv.Type())
			vc.vals[fv] = v
			vc.params[fv.Name()] = v
			continue
		}
		cell := vc.freshSV("fv."+fv.Name(), pt.Elem())
		vc.assumeType("true", pt.Elem(), cell, vc.st0)
		st.locals[fv] = cell
		vc.st0.locals[fv] = cell
		vc.vals[fv] = Pt{Kind: "local", Local: fv, Elem: pt.Elem()}
	}
	vc.onceLiteralEntry(vc.st0)
	// requires
	env := vc.newEnv(vc.st0, vc.st0, nil)
	for _, r := range con.Requires {
		vc.assume("true", vc.evalBool(env, r.Expr))
	}
	vc.regions = map[string]string{}
	for _, f := range vc.eng.Findings {
		if f.Kind == "finding" && f.Region != "" && strings.HasPrefix(f.Obligation, vc.key+"/") {
			rx, err := ParseExpr(f.Region)
			if err != nil {
				panic(specErr("known_findings.json: region of " + f.Obligation + ": " + err.Error()))
			}
			r := vc.evalBool(env, rx)
			if old, ok := vc.regions[normOrd(f.Obligation)]; ok {
				r = sOr(old, r)
			}
			vc.regions[normOrd(f.Obligation)] = r
		}
	}
	vc.applyGhostEntry(st)
	vc.obls = append(vc.obls, &Obligation{Name: vc.key + "/cover.pre", Kind: "cover", Func: vc.key, Prefix: len(vc.script), Guard: "true", Goal: "false"})
	vc.reach[fn.Blocks[0]] = "true"
	vc.edges[fn.Blocks[0]] = []edge{{nil, "true", st}}
	vc.iterChecked = map[*Clause]bool{}
	vc.processBlocks(vc.rpo)
	for _, c := range con.IterEns {
		if !vc.iterChecked[c] {
			panic(specErr(fmt.Sprintf("%s:%d: `loop %d ensures %s` was not checked at any back edge (names not in scope?)", c.File, c.Line, c.Loop, c.Label)))
		}
	}
	vc.finish()
}

// processBlocks runs the blocks (a subsequence of the RPO) in order.
func (vc *VC) processBlocks(blocks []*ssa.BasicBlock) {
	for _, b := range blocks {
		vc.processBlock(b)
	}
}

func (vc *VC) mergeEdges(b *ssa.BasicBlock, es []edge) (string, *State) {
	if len(es) == 0 {
		return "false", vc.st0.clone()
	}
	var conds []string
	for _, e := range es {
		conds = append(conds, e.cond)
	}
	reach := sOr(conds...)
	if len(es) == 1 {
		return reach, es[0].st.clone()
	}
	st := &State{vars: map[string]string{}, locals: map[interface{}]SV{}, epoch: es[0].st.epoch}
	for _, e := range es {
		if e.st.epoch != es[0].st.epoch {
			// different havoc epochs: unify by havocking everything
			st = es[0].st.clone()
			vc.havocAll(st)
			return reach, st
		}
	}
	names := map[string]bool{}
	for _, e := range es {
		for k := range e.st.vars {
			names[k] = true
		}
	}
	var ks []string
	for k := range names {
		ks = append(ks, k)
	}
	sort.Strings(ks)
	for _, k := range ks {
		sortK := vc.svSort[k]
		t := vc.get(es[len(es)-1].st, k, sortK)
		same := true
		for i := len(es) - 2; i >= 0; i-- {
			ti := vc.get(es[i].st, k, sortK)
			if ti != t {
				same = false
			}
		}
		if same {
			st.vars[k] = t
			continue
		}
		for i := len(es) - 2; i >= 0; i-- {
			t = sIte(es[i].cond, vc.get(es[i].st, k, sortK), t)
		}
		st.vars[k] = vc.define(k+"@b"+fmt.Sprint(b.Index), sortK, t)
	}
	locs := map[interface{}]bool{}
	for _, e := range es {
		for k := range e.st.locals {
			locs[k] = true
		}
	}
	for k := range locs {
		var t types.Type
		switch a := k.(type) {
		case *ssa.Alloc:
			t = a.Type().(*types.Pointer).Elem()
		case *ssa.FreeVar:
			t = a.Type().(*types.Pointer).Elem()
		case *ssa.Global:
			t = a.Type().(*types.Pointer).Elem()
		}
		var cur SV
		for i := len(es) - 1; i >= 0; i-- {
			v, ok := es[i].st.locals[k]
			if !ok {
				continue
			}
			if cur == nil {
				cur = v
			} else {
				cur = iteSV(t, es[i].cond, v, cur)
			}
		}
		st.locals[k] = cur
	}
	return reach, st
}

func (vc *VC) processBlock(b *ssa.BasicBlock) {
	all := vc.edges[b]
	li := vc.loops[b]
	var st *State
	var reach string
	if li == nil {
		reach, st = vc.mergeEdges(b, all)
		if len(all) > 1 {
			reach = vc.define(fmt.Sprintf("reach.b%d", b.Index), "Bool", reach)
		}
		vc.reach[b] = reach
		// phis
		for _, in := range b.Instrs {
			phi, ok := in.(*ssa.Phi)
			if !ok {
				break
			}
			var cur SV
			for i := len(all) - 1; i >= 0; i-- {
				v := vc.val(phi.Edges[predIndex(b, all[i].from)])
				if cur == nil {
					cur = v
				} else {
					cur = vc.mergeSV(phi.Type(), all[i].cond, v, cur)
				}
			}
			if cur == nil {
				cur = zeroSV(phi.Type())
			}
			vc.vals[phi] = cur
		}
	} else {
		// loop header: entry edges only are present in vc.edges (back edges are cut)
		reach, st = vc.mergeEdges(b, all)
		reach = vc.define(fmt.Sprintf("reach.loop%d", li.index), "Bool", reach)
		vc.reach[b] = reach
		entryPhis := map[*ssa.Phi]SV{}
		var phis []*ssa.Phi
		for _, in := range b.Instrs {
			phi, ok := in.(*ssa.Phi)
			if !ok {
				break
			}
			phis = append(phis, phi)
			var cur SV
			for i := len(all) - 1; i >= 0; i-- {
				v := vc.val(phi.Edges[predIndex(b, all[i].from)])
				if cur == nil {
					cur = v
				} else {
					cur = vc.mergeSV(phi.Type(), all[i].cond, v, cur)
				}
			}
			entryPhis[phi] = cur
			vc.vals[phi] = cur
		}
		// invariant on entry
		invs := vc.loopInvs(li.index)
		if vc.dry == 0 {
			env := vc.newEnv(st, vc.st0, b)
			for _, inv := range invs {
				vc.oblige("inv.init", fmt.Sprintf("inv.%d.%s.init", li.index, inv.Label), inv.Props, reach, vc.evalBool(env, inv.Expr), inv.Text, token.NoPos)
			}
			vc.autoFrameInv(li, "init", reach, st)
		}
		// discover what the loop writes (dry run), then havoc exactly that
		w, wl := vc.dryRun(li, st, phis)
		stEntry := st
		st = st.clone()
		if w["*"] {
			vc.havocAll(st)
		} else {
			var ws []string
			for k := range w {
				ws = append(ws, k)
			}
			sort.Strings(ws)
			for _, k := range ws {
				sortK := vc.svSort[k]
				nv := vc.fresh(k+"@loop"+fmt.Sprint(li.index), sortK)
				if k == "alloc" {
					vc.assume("true", app("<=", vc.get(stEntry, "alloc", "Int"), nv))
				}
				st.vars[k] = nv
				if vc.dry > 0 {
					vc.writes[k] = true
				}
			}
		}
		for k := range wl {
			var t types.Type
			switch a := k.(type) {
			case *ssa.Alloc:
				t = a.Type().(*types.Pointer).Elem()
			case *ssa.FreeVar:
				t = a.Type().(*types.Pointer).Elem()
			case *ssa.Global:
				t = a.Type().(*types.Pointer).Elem()
			}
			nv := vc.freshSV("loc@loop"+fmt.Sprint(li.index), t)
			st.locals[k] = nv
			vc.assumeType("true", t, nv, st)
			if vc.dry > 0 {
				vc.wlocal[k] = true
			}
		}
		for _, phi := range phis {
			nm := phi.Comment
			if nm == "" {
				nm = phi.Name()
			}
			v := vc.freshSV(nm+"@loop"+fmt.Sprint(li.index), phi.Type())
			vc.vals[phi] = v
			vc.assumeType("true", phi.Type(), v, st)
			// monotone counters: entry value c and every back edge adds a positive (negative) constant
			if dir := monotonePhi(phi, b, vc.backTo[b]); dir != 0 {
				if ev, ok := entryPhis[phi].(Sc); ok && ev.S == "Int" {
					if dir > 0 {
						vc.assume(reach, app("<=", ev.T, v.(Sc).T))
					} else {
						vc.assume(reach, app(">=", ev.T, v.(Sc).T))
					}
				}
			}
		}
		env := vc.newEnv(st, vc.st0, b)
		for _, inv := range invs {
			vc.assume(reach, vc.evalBool(env, inv.Expr))
		}
		vc.autoFrameAssume(li, reach, st)
		for _, d := range vc.loopDecs(li.index) {
			vc.decAt[b] = append(vc.decAt[b], vc.define("variant", "Int", vc.evalInt(env, d.Expr)))
		}
		vc.snapHeader(b, st)
	}
	// instructions
	for _, in := range b.Instrs {
		if _, ok := in.(*ssa.Phi); ok {
			continue
		}
		if p := in.Pos(); p.IsValid() {
			vc.curPos = p
		}
		vc.exec(b, in, st, reach)
	}
	vc.exitSt[b] = st
}

func predIndex(b, from *ssa.BasicBlock) int {
	for i, p := range b.Preds {
		if p == from {
			return i
		}
	}
	panic("predIndex: not a predecessor")
}

func (vc *VC) mergeSV(t types.Type, c string, a, b SV) SV {
	pa, oka := a.(Pt)
	pb, okb := b.(Pt)
	if oka && okb && (pa.Kind != "heap" || pb.Kind != "heap" || len(pa.Path) != 0 || len(pb.Path) != 0) {
		if pa.Kind == pb.Kind && pa.Local == pb.Local && pa.Kind == "local" && fmt.Sprint(pa.Path) == fmt.Sprint(pb.Path) {
			return a
		}
		panic(unsupported("phi of non-heap pointers"))
	}
	return iteSV(t, c, a, b)
}

func (vc *VC) loopInvs(k int) []*Clause {
	var out []*Clause
	for _, c := range vc.con.Invs {
		if c.Loop == k {
			out = append(out, c)
		}
	}
	return out
}

func (vc *VC) loopDecs(k int) []*Clause {
	var out []*Clause
	for _, c := range vc.con.Decs {
		if c.Loop == k {
			out = append(out, c)
		}
	}
	return out
}

// dryRun executes the loop body once with everything havocked, only to learn which state it writes.
func (vc *VC) dryRun(li *loopInfo, st *State, phis []*ssa.Phi) (map[string]bool, map[interface{}]bool) {
	saveScript, saveObl, saveW, saveWL := len(vc.script), len(vc.obls), vc.writes, vc.wlocal
	saveDecl := map[string]bool{}
	for k := range vc.decl {
		saveDecl[k] = true
	}
	saveEdges := map[*ssa.BasicBlock][]edge{}
	for k, v := range vc.edges {
		saveEdges[k] = append([]edge(nil), v...)
	}
	saveVals := map[ssa.Value]SV{}
	for k, v := range vc.vals {
		saveVals[k] = v
	}
	saveOrd := map[string]int{}
	for k, v := range vc.ord {
		saveOrd[k] = v
	}
	saveCallN := map[string]int{}
	for k, v := range vc.callN {
		saveCallN[k] = v
	}
	saveRets := len(vc.rets)
	saveStrc := map[string]string{} // string constants declared during the dry run are rolled back with the script
	for k, v := range vc.strc {
		saveStrc[k] = v
	}
	vc.writes, vc.wlocal = map[string]bool{}, map[interface{}]bool{}
	vc.dry++
	d := st.clone()
	vc.havocAll(d)
	vc.writes = map[string]bool{} // havocAll above marked "*"; reset
	for k := range d.locals {
		d.locals[k] = vc.freshSVForLocal(k)
	}
	for _, phi := range phis {
		vc.vals[phi] = vc.freshSV("dry", phi.Type())
	}
	var blocks []*ssa.BasicBlock
	for _, b := range vc.rpo {
		if li.body[b] {
			blocks = append(blocks, b)
		}
	}
	// header instructions, then the rest of the body
	h := li.header
	vc.reach[h] = "true"
	for _, in := range h.Instrs {
		if _, ok := in.(*ssa.Phi); ok {
			continue
		}
		vc.exec(h, in, d, "true")
	}
	for _, b := range blocks[1:] {
		vc.processBlock(b)
	}
	vc.dry--
	w, wl := vc.writes, vc.wlocal
	vc.script = vc.script[:saveScript]
	vc.obls = vc.obls[:saveObl]
	vc.decl = saveDecl
	for k, n := range vc.strc { // string constants first met inside the dry run lost their declaration (w-c19)
		if !vc.decl[n] {
			delete(vc.strc, k)
		}
	}
	vc.edges = saveEdges
	vc.vals = saveVals
	vc.ord = saveOrd
	vc.callN = saveCallN
	vc.rets = vc.rets[:saveRets]
	vc.strc = saveStrc
	vc.writes, vc.wlocal = saveW, saveWL
	return w, wl
}

func (vc *VC) freshSVForLocal(k interface{}) SV {
	var t types.Type
	switch a := k.(type) {
	case *ssa.Alloc:
		t = a.Type().(*types.Pointer).Elem()
	case *ssa.FreeVar:
		t = a.Type().(*types.Pointer).Elem()
	case *ssa.Global:
		t = a.Type().(*types.Pointer).Elem()
	}
	return vc.freshSV("dryloc", t)
}

// ---- values -----------------------------------------------------------------------------------

func (vc *VC) val(v ssa.Value) SV {
	if sv, ok := vc.vals[v]; ok {
		return sv
	}
	switch x := v.(type) {
	case *ssa.Const:
		return vc.constSV(x)
	case *ssa.Function:
		return Sc{"Fn", vc.fnConst(funcKey(x))} // fnis.go: declared + known non-nil
	case *ssa.Global:
		return Pt{Kind: "global", Local: x, Elem: x.Type().(*types.Pointer).Elem()}
	case *ssa.Builtin:
		return Sc{"Fn", "nilFn"}
	}
	panic(unsupported(fmt.Sprintf("use of value %s (%T) before definition", v.Name(), v)))
}

func (vc *VC) strConst(s string) string {
	if n, ok := vc.strc[s]; ok {
		return n
	}
	if s == "" {
		return "emptyStr"
	}
	n := vc.fresh("strc", "Str")
	vc.strc[s] = n
	vc.emit(fmt.Sprintf("(assert (= (slen %s) %d)) ; %q", n, len(s), truncate(s, 40)))
	if len(s) <= 48 {
		for i := 0; i < len(s); i++ {
			vc.emit(fmt.Sprintf("(assert (= (sat %s %d) %d))", n, i, s[i]))
		}
	}
	return n
}

func truncate(s string, n int) string {
	if len(s) > n {
		return s[:n] + "..."
	}
	return s
}

func floatLit(f float64) string {
	bits := math.Float64bits(f)
	sign := bits >> 63
	exp := (bits >> 52) & 0x7ff
	man := bits & ((1 << 52) - 1)
	return fmt.Sprintf("(fp #b%b #b%011b #b%052b)", sign, exp, man)
}

func (vc *VC) constSV(c *ssa.Const) SV {
	t := c.Type()
	if c.Value == nil {
		return zeroSV(t)
	}
	switch u := t.Underlying().(type) {
	case *types.Basic:
		switch {
		case u.Info()&types.IsBoolean != 0:
			if constant.BoolVal(c.Value) {
				return Sc{"Bool", "true"}
			}
			return Sc{"Bool", "false"}
		case u.Info()&types.IsInteger != 0:
			return Sc{"Int", sBigInt(constant.ToInt(c.Value).ExactString())}
		case u.Info()&types.IsString != 0:
			return Sc{"Str", vc.strConst(constant.StringVal(c.Value))}
		case u.Info()&types.IsFloat != 0:
			f, _ := constant.Float64Val(c.Value)
			return Sc{"F", floatLit(f)}
		}
	}
	panic(unsupported("constant of type " + t.String()))
}

// ---- finishing: postconditions and frame ------------------------------------------------------

func (vc *VC) finish() {
	con := vc.con
	if len(vc.rets) == 0 {
		return
	}
	var conds []string
	for _, r := range vc.rets {
		conds = append(conds, r.cond)
	}
	reachAll := vc.define("reach.exit", "Bool", sOr(conds...))
	vc.obls = append(vc.obls, &Obligation{Name: vc.key + "/cover.exit", Kind: "cover", Func: vc.key, Prefix: len(vc.script), Guard: "true", Goal: sNot(reachAll)})
	// one set of postcondition / frame obligations per return statement, in source order
	idx := make([]int, len(vc.rets))
	for i := range idx {
		idx[i] = i
	}
	sort.SliceStable(idx, func(a, b int) bool { return vc.rets[idx[a]].pos < vc.rets[idx[b]].pos })
	results := vc.fn.Signature.Results()
	for k, i := range idx {
		r := vc.rets[i]
		suffix := ""
		if len(vc.rets) > 1 {
			suffix = fmt.Sprintf("@r%d", k)
		}
		vc.curPos = r.pos
		var res []SV
		for j := 0; j < results.Len(); j++ {
			ls := toLeaves(r.res[j])
			sorts := sortsOf(results.At(j).Type())
			for q := range ls {
				ls[q] = vc.define(fmt.Sprintf("result%s.%d", suffix, j), sorts[q], ls[q])
			}
			res = append(res, mkSV(results.At(j).Type(), ls))
		}
		env := vc.newEnv(r.st, vc.st0, nil)
		vc.bindResults(env, con, res)
		vc.applyGhostExit(env, r.cond) // ghost.go
		r.st = env.st
		for _, c := range con.Ensures {
			if o := vc.oblige("post", "post."+c.Label+suffix, c.Props, r.cond, vc.evalBool(env, c.Expr), c.Text, r.pos); o != nil {
				o.ResultSVs = res // replay.go: scalar results of the counter-model are compared with the real run
				if o.sibling != nil {
					o.sibling.ResultSVs = res
				}
			}
		}
		vc.frameObligations(r.cond, r.st, suffix)
		vc.capturedFrame(r.cond, r.st, suffix)
	}
}

func (vc *VC) bindResults(env *Env, con *Contract, res []SV) {
	if rs := vc.fn.Signature.Results(); rs.Len() == len(res) { // w-c04: map-typed results usable with has()/m[k]
		res = append([]SV(nil), res...)
		for i := range res {
			res[i] = vc.typedSV(res[i], rs.At(i).Type())
		}
	}
	if len(res) == 1 {
		env.vars["result"] = res[0]
	} else if len(res) > 1 {
		env.vars["result"] = St{Typ: vc.fn.Signature.Results(), F: res}
	}
	for i, r := range res {
		env.vars[fmt.Sprintf("result.%d", i)] = r
		if i < len(con.Results) {
			env.vars[con.Results[i]] = r
		}
	}
}

// heaps indexed by reference: slice rows (HS), struct fields (HF) and the three map heaps (MD domain, ML length,
// MV values; added by w-c04 so that `assigns fresh-only` functions may fill maps they allocate themselves)
func isHeapVar(name string) bool {
	return strings.HasPrefix(name, "HS|") || strings.HasPrefix(name, "HF|") ||
		strings.HasPrefix(name, "MD|") || strings.HasPrefix(name, "ML|") || strings.HasPrefix(name, "MV|")
}

func (vc *VC) modifiable(name string) bool {
	if vc.logImplicitlyModifiable(name) { // logghost.go (w-c09)
		return true
	}
	for _, m := range vc.con.Modifies {
		if m == name || strings.HasPrefix(name, m+"|") || (strings.HasPrefix(name, "G|") && "G|"+m == name) {
			return true
		}
		if strings.HasPrefix(name, "HF|") && strings.HasPrefix(name, "HF|"+sanitize(m)+"|") {
			return true
		}
	}
	return false
}

// frameObligations: with "assigns fresh-only" no row allocated before entry may differ at exit.
func (vc *VC) frameObligations(reach string, st *State, suffix string) {
	con := vc.con
	if con.Assigns == "" || con.Assigns == "any" {
		return
	}
	if st.epoch != vc.st0.epoch {
		// some call on this path had no frame contract (all state havocked): nothing is known about what was
		// written, so the frame cannot be established
		vc.oblige("frame", "frame.unknown-callee"+suffix, con.frameProps(), reach, "false",
			"assigns "+con.Assigns+": a callee without an assigns clause was called on this path", token.NoPos)
		return
	}
	var names []string
	for k := range st.vars {
		names = append(names, k)
	}
	sort.Strings(names)
	for _, k := range names {
		if k == "alloc" || vc.modifiable(k) || isIterGhost(k) || isCursorGhost(k) { // cursorghost.go (x-c01)
			continue
		}
		cur := st.vars[k]
		init := vc.get(vc.st0, k, vc.svSort[k])
		if cur == init {
			continue
		}
		label := "frame." + strings.ReplaceAll(strings.ReplaceAll(k, "|", "."), " ", "") + suffix
		if isHeapVar(k) && con.Assigns == "fresh-only" {
			o := vc.oblige("frame", label, con.frameProps(), reach, "", "assigns fresh-only", token.NoPos)
			if o != nil {
				r := "frame!r"
				o.Extra = []string{"(declare-fun frame!r () Int)"}
				o.Goal = sImp(sAnd(app("<=", "0", r), app("<", r, vc.allocTerm(vc.st0))), sEq(app("select", cur, r), app("select", init, r)))
				o.ModelQ = []string{r}
			}
		} else {
			vc.oblige("frame", label, con.frameProps(), reach, sEq(cur, init), "assigns "+con.Assigns, token.NoPos)
		}
	}
}

func (c *Contract) frameProps() []string {
	// frame obligations belong to C03 plus whatever the contract tags say
	out := []string{"C03"}
	for _, t := range c.Tags {
		if t != "C03" {
			out = append(out, t)
		}
	}
	return out
}

// autoFrameInv: in functions with an assigns clause every loop implicitly maintains the frame.
func (vc *VC) autoFrameInv(li *loopInfo, phase, guard string, st *State) {
	con := vc.con
	if con.Assigns == "" || con.Assigns == "any" {
		return
	}
	var names []string
	for k := range st.vars {
		names = append(names, k)
	}
	sort.Strings(names)
	for _, k := range names {
		if k == "alloc" || vc.modifiable(k) || !isHeapVar(k) {
			continue
		}
		cur := st.vars[k]
		init := vc.get(vc.st0, k, vc.svSort[k])
		if cur == init {
			continue
		}
		label := fmt.Sprintf("inv.%d.frame.%s.%s", li.index, strings.ReplaceAll(k, "|", "."), phase)
		o := vc.oblige("inv."+phase, label, con.frameProps(), guard, "", "assigns "+con.Assigns+" (loop frame)", token.NoPos)
		if o != nil {
			r := "frame!r"
			o.Extra = []string{"(declare-fun frame!r () Int)"}
			o.Goal = sImp(sAnd(app("<=", "0", r), app("<", r, vc.allocTerm(vc.st0))), sEq(app("select", cur, r), app("select", init, r)))
		}
	}
}

func (vc *VC) autoFrameAssume(li *loopInfo, guard string, st *State) {
	con := vc.con
	if con.Assigns == "" || con.Assigns == "any" {
		return
	}
	var names []string
	for k := range st.vars {
		names = append(names, k)
	}
	sort.Strings(names)
	for _, k := range names {
		if k == "alloc" || vc.modifiable(k) || !isHeapVar(k) {
			continue
		}
		cur := st.vars[k]
		init := vc.get(vc.st0, k, vc.svSort[k])
		if cur == init {
			continue
		}
		vc.nfresh++
		r := fmt.Sprintf("r!%d", vc.nfresh)
		vc.assume(guard, fmt.Sprintf("(forall ((%s Int)) (! (=> (and (<= 0 %s) (< %s %s)) (= (select %s %s) (select %s %s))) :pattern ((select %s %s))))",
			r, r, r, vc.allocTerm(vc.st0), cur, r, init, r, cur, r))
	}
}

// monotonePhi: +1 if every back edge carries phi + (positive constant), -1 if phi - (positive constant), else 0.
func monotonePhi(phi *ssa.Phi, h *ssa.BasicBlock, back map[*ssa.BasicBlock]bool) int {
	dir := 0
	for i, p := range h.Preds {
		if !back[p] {
			continue
		}
		e := phi.Edges[i]
		if e == phi {
			continue
		}
		bo, ok := e.(*ssa.BinOp)
		if !ok || bo.X != phi {
			return 0
		}
		c, ok := bo.Y.(*ssa.Const)
		if !ok || c.Value == nil {
			return 0
		}
		k, exact := constant.Int64Val(constant.ToInt(c.Value))
		if !exact || k == 0 {
			return 0
		}
		d := 0
		switch bo.Op {
		case token.ADD:
			d = 1
		case token.SUB:
			d = -1
		default:
			return 0
		}
		if k < 0 {
			d = -d
		}
		if dir != 0 && dir != d {
			return 0
		}
		dir = d
	}
	return dir
}
