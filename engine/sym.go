package main

// Symbolic values and their SMT encodings.
//
// Every Go value is flattened into a list of SMT "leaves" driven by its Go type:
//   integers -> Int (mathematical), bool -> Bool, string -> Str, float -> F,
//   slice -> (ref, off, len, cap) all Int, pointer/map/chan -> Int ref (0 = nil),
//   interface -> Val, func -> Fn, struct/array/tuple -> concatenation of fields.

import (
	"fmt"
	"go/types"
	"regexp"
	"strings"
)

type SV interface{ isSV() }

// Sc is a scalar: one SMT term of a given sort.
type Sc struct {
	S string // sort: Int Bool Val Str F Fn
	T string // term
}

// Sl is a slice (or pointer to fixed array): a view into row Ref of the heap for Elem.
type Sl struct {
	Ref, Off, Len, Cap string
	Elem               types.Type
}

// St is a struct (or fixed-size array / tuple) value: fields in order.
type St struct {
	Typ types.Type
	F   []SV
}

// Pt is a pointer. Kind: "heap" (ref into per-field heaps of Elem), "local" (non-escaping Alloc),
// "elem" (&slice[i]), "global".
type Pt struct {
	Kind  string
	Ref   string      // heap: ref term
	Elem  types.Type  // pointee type (after applying Path)
	Root  types.Type  // heap: root struct type for heap naming
	Path  []int       // field path from root
	Local interface{} // *ssa.Alloc or *ssa.Global
	Sl    *Sl         // elem: the slice
	Idx   string      // elem: index term (relative to slice start)
}

func (Sc) isSV() {}
func (Sl) isSV() {}
func (St) isSV() {}
func (Pt) isSV() {}

// ---- SMT term helpers -------------------------------------------------------------------------

func app(f string, args ...string) string {
	if len(args) == 0 {
		return f
	}
	return "(" + f + " " + strings.Join(args, " ") + ")"
}

func sAnd(xs ...string) string {
	var ys []string
	for _, x := range xs {
		if x == "true" || x == "" {
			continue
		}
		if x == "false" {
			return "false"
		}
		ys = append(ys, x)
	}
	switch len(ys) {
	case 0:
		return "true"
	case 1:
		return ys[0]
	}
	return app("and", ys...)
}

func sOr(xs ...string) string {
	var ys []string
	for _, x := range xs {
		if x == "false" || x == "" {
			continue
		}
		if x == "true" {
			return "true"
		}
		ys = append(ys, x)
	}
	switch len(ys) {
	case 0:
		return "false"
	case 1:
		return ys[0]
	}
	return app("or", ys...)
}

func sNot(x string) string {
	switch x {
	case "true":
		return "false"
	case "false":
		return "true"
	}
	if strings.HasPrefix(x, "(not ") {
		return x[5 : len(x)-1]
	}
	return app("not", x)
}

func sImp(a, b string) string {
	if a == "true" {
		return b
	}
	if a == "false" || b == "true" {
		return "true"
	}
	return app("=>", a, b)
}

func sIte(c, a, b string) string {
	if c == "true" {
		return a
	}
	if c == "false" {
		return b
	}
	if a == b {
		return a
	}
	return app("ite", c, a, b)
}

func sEq(a, b string) string {
	if a == b {
		return "true"
	}
	return app("=", a, b)
}

func sInt(n int64) string {
	if n < 0 {
		return fmt.Sprintf("(- %d)", -n)
	}
	return fmt.Sprintf("%d", n)
}

func sBigInt(s string) string {
	if strings.HasPrefix(s, "-") {
		return "(- " + s[1:] + ")"
	}
	return s
}

var nonIdent = regexp.MustCompile(`[^A-Za-z0-9_.$]`)

func sanitize(s string) string {
	s = strings.ReplaceAll(s, "github.com/arr-ai/arrai/", "")
	s = strings.ReplaceAll(s, "github.com/arr-ai/", "")
	s = strings.ReplaceAll(s, "*", "P.")
	s = strings.ReplaceAll(s, "[]", "S.")
	s = strings.ReplaceAll(s, "/", ".")
	return nonIdent.ReplaceAllString(s, "_")
}

// ---- type shapes ------------------------------------------------------------------------------

func typeName(t types.Type) string {
	return sanitize(types.TypeString(t, nil))
}

// sortsOf returns the leaf sorts of a Go type.
func sortsOf(t types.Type) []string {
	switch u := t.Underlying().(type) {
	case *types.Basic:
		switch {
		case u.Info()&types.IsBoolean != 0:
			return []string{"Bool"}
		case u.Info()&types.IsInteger != 0:
			return []string{"Int"}
		case u.Info()&types.IsString != 0:
			return []string{"Str"}
		case u.Info()&types.IsFloat != 0:
			return []string{"F"}
		case u.Kind() == types.UnsafePointer:
			return []string{"Int"}
		case u.Kind() == types.UntypedNil:
			return []string{"Val"}
		}
		return []string{"Val"}
	case *types.Slice:
		return []string{"Int", "Int", "Int", "Int"}
	case *types.Pointer, *types.Map, *types.Chan:
		return []string{"Int"}
	case *types.Interface:
		return []string{"Val"}
	case *types.Signature:
		return []string{"Fn"}
	case *types.Struct:
		var out []string
		for i := 0; i < u.NumFields(); i++ {
			out = append(out, sortsOf(u.Field(i).Type())...)
		}
		return out
	case *types.Array:
		var out []string
		if u.Len() > 8 {
			return []string{"Val"} // opaque
		}
		for i := int64(0); i < u.Len(); i++ {
			out = append(out, sortsOf(u.Elem())...)
		}
		return out
	case *types.Tuple:
		var out []string
		for i := 0; i < u.Len(); i++ {
			out = append(out, sortsOf(u.At(i).Type())...)
		}
		return out
	}
	return []string{"Val"}
}

// leafNames gives human-readable names for leaves (used for projections / heap names).
func leafNames(t types.Type) []string {
	switch u := t.Underlying().(type) {
	case *types.Slice:
		return []string{"ref", "off", "len", "cap"}
	case *types.Struct:
		var out []string
		for i := 0; i < u.NumFields(); i++ {
			sub := leafNames(u.Field(i).Type())
			for _, s := range sub {
				if s == "" {
					out = append(out, u.Field(i).Name())
				} else {
					out = append(out, u.Field(i).Name()+"_"+s)
				}
			}
		}
		return out
	case *types.Array:
		if u.Len() > 8 {
			return []string{""}
		}
		var out []string
		for i := int64(0); i < u.Len(); i++ {
			for _, s := range leafNames(u.Elem()) {
				out = append(out, fmt.Sprintf("%d_%s", i, s))
			}
		}
		return out
	case *types.Tuple:
		var out []string
		for i := 0; i < u.Len(); i++ {
			for _, s := range leafNames(u.At(i).Type()) {
				out = append(out, fmt.Sprintf("%d_%s", i, s))
			}
		}
		return out
	}
	return []string{""}
}

// toLeaves flattens a symbolic value.
func toLeaves(v SV) []string {
	switch x := v.(type) {
	case Sc:
		return []string{x.T}
	case Sl:
		return []string{x.Ref, x.Off, x.Len, x.Cap}
	case St:
		var out []string
		for _, f := range x.F {
			out = append(out, toLeaves(f)...)
		}
		return out
	case Pt:
		if x.Kind == "heap" && len(x.Path) == 0 {
			return []string{x.Ref}
		}
		panic(unsupported("flattening a non-heap pointer (" + x.Kind + ")"))
	}
	panic("toLeaves: unknown SV")
}

// fromLeaves rebuilds a symbolic value of type t from leaf terms; returns remaining leaves.
func fromLeaves(t types.Type, ls []string) (SV, []string) {
	switch u := t.Underlying().(type) {
	case *types.Slice:
		return Sl{Ref: ls[0], Off: ls[1], Len: ls[2], Cap: ls[3], Elem: u.Elem()}, ls[4:]
	case *types.Pointer:
		return Pt{Kind: "heap", Ref: ls[0], Elem: u.Elem(), Root: u.Elem()}, ls[1:]
	case *types.Struct:
		st := St{Typ: t}
		for i := 0; i < u.NumFields(); i++ {
			var f SV
			f, ls = fromLeaves(u.Field(i).Type(), ls)
			st.F = append(st.F, f)
		}
		return st, ls
	case *types.Array:
		if u.Len() > 8 {
			return Sc{"Val", ls[0]}, ls[1:]
		}
		st := St{Typ: t}
		for i := int64(0); i < u.Len(); i++ {
			var f SV
			f, ls = fromLeaves(u.Elem(), ls)
			st.F = append(st.F, f)
		}
		return st, ls
	case *types.Tuple:
		st := St{Typ: t}
		for i := 0; i < u.Len(); i++ {
			var f SV
			f, ls = fromLeaves(u.At(i).Type(), ls)
			st.F = append(st.F, f)
		}
		return st, ls
	}
	s := sortsOf(t)
	return Sc{s[0], ls[0]}, ls[1:]
}

func mkSV(t types.Type, ls []string) SV {
	v, rest := fromLeaves(t, ls)
	if len(rest) != 0 {
		panic("mkSV: leftover leaves")
	}
	return v
}

// zeroLeaf is the zero value of an SMT sort.
func zeroLeaf(sort string) string {
	switch sort {
	case "Int":
		return "0"
	case "Bool":
		return "false"
	case "Val":
		return "nilVal"
	case "Str":
		return "emptyStr"
	case "F":
		return "fzero"
	case "Fn":
		return "nilFn"
	}
	panic("zeroLeaf " + sort)
}

func zeroSV(t types.Type) SV {
	var ls []string
	for _, s := range sortsOf(t) {
		ls = append(ls, zeroLeaf(s))
	}
	return mkSV(t, ls)
}

// iteSV merges two symbolic values of the same type.
func iteSV(t types.Type, c string, a, b SV) SV {
	la, lb := toLeaves(a), toLeaves(b)
	out := make([]string, len(la))
	for i := range la {
		out[i] = sIte(c, la[i], lb[i])
	}
	return mkSV(t, out)
}

func eqSV(a, b SV) string {
	la, lb := toLeaves(a), toLeaves(b)
	if len(la) != len(lb) {
		panic(unsupported("comparing values of different shapes"))
	}
	var cs []string
	for i := range la {
		cs = append(cs, sEq(la[i], lb[i]))
	}
	return sAnd(cs...)
}

type unsupportedErr struct{ msg string }

func unsupported(msg string) unsupportedErr { return unsupportedErr{msg} }

// intRange returns lo, hi (as SMT numerals) for Go integer types, ok=false for non-integers.
func intRange(t types.Type) (string, string, bool) {
	b, ok := t.Underlying().(*types.Basic)
	if !ok || b.Info()&types.IsInteger == 0 {
		return "", "", false
	}
	switch b.Kind() {
	case types.Int8:
		return "(- 128)", "127", true
	case types.Int16:
		return "(- 32768)", "32767", true
	case types.Int32:
		return "(- 2147483648)", "2147483647", true
	case types.Int, types.Int64, types.UntypedInt:
		return "(- 9223372036854775808)", "9223372036854775807", true
	case types.Uint8:
		return "0", "255", true
	case types.Uint16:
		return "0", "65535", true
	case types.Uint32:
		return "0", "4294967295", true
	case types.Uint, types.Uint64, types.Uintptr:
		return "0", "18446744073709551615", true
	}
	return "", "", false
}
