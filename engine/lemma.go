package main

import (
	"fmt"
	"go/token"
	"go/types"
	"strings"
)

// GenLemma: a lemma is a function-less unit: parameters are arbitrary values of the given sorts or
// Go types; requires are assumed, ensures are obligations. "call" clauses (use f(args) as r) bring in
// the *contract* of a function under contract (never its body).
func (e *Engine) GenLemma(con *Contract) (obls []*Obligation, err error) {
	vc := newVC(e, nil, con, con.Name)
	defer func() {
		if r := recover(); r != nil {
			if s, ok := r.(specErr); ok {
				err = fmt.Errorf("%s: %s", con.Name, string(s))
				return
			}
			if u, ok := r.(unsupportedErr); ok {
				err = fmt.Errorf("%s: unsupported: %s", con.Name, u.msg)
				return
			}
			panic(r)
		}
	}()
	st := &State{vars: map[string]string{}, locals: map[interface{}]SV{}}
	vc.st0 = st
	vc.assume("true", app("<=", "1", vc.allocTerm(st)))
	for i, p := range con.Params {
		srt := con.PSorts[i]
		switch srt {
		case "Int", "Bool", "Val", "Str", "F", "Fn":
			vc.params[p] = Sc{srt, vc.fresh("p."+p, srt)}
		default:
			if strings.HasPrefix(srt, "[]") {
				et, err := e.resolveType(srt[2:], con.Pkg)
				if err != nil {
					return nil, err
				}
				t := types.NewSlice(et)
				v := vc.freshSV("p."+p, t)
				vc.assumeType("true", t, v, st)
				vc.params[p] = v
				continue
			}
			t, err := e.resolveType(srt, con.Pkg)
			if err != nil {
				// maybe a prelude sort
				vc.params[p] = Sc{srt, vc.fresh("p."+p, srt)}
				continue
			}
			v := vc.freshSV("p."+p, t)
			vc.assumeType("true", t, v, st)
			vc.params[p] = v
		}
	}
	env := vc.newEnv(st, st, nil)
	for _, r := range con.Requires {
		vc.assume("true", vc.evalBool(env, r.Expr))
	}
	// regions of known findings apply to lemma obligations too (expressions over the lemma's parameters)
	vc.regions = map[string]string{}
	for _, f := range e.Findings {
		if f.Kind == "finding" && f.Region != "" && strings.HasPrefix(f.Obligation, con.Name+"/") {
			rx, err := ParseExpr(f.Region)
			if err != nil {
				return nil, fmt.Errorf("known_findings.json: region of %s: %v", f.Obligation, err)
			}
			r := vc.evalBool(env, rx)
			if old, ok := vc.regions[normOrd(f.Obligation)]; ok {
				r = sOr(old, r)
			}
			vc.regions[normOrd(f.Obligation)] = r
		}
	}
	for i, cl := range con.Calls {
		cc := e.CS.Contracts[cl.Key]
		if cc == nil {
			return nil, fmt.Errorf("%s: call of %s, which has no contract", con.Name, cl.Key)
		}
		fn := e.Funcs[cl.Key]
		if fn == nil {
			return nil, fmt.Errorf("%s: call of unknown function %s", con.Name, cl.Key)
		}
		env = vc.newEnv(st, st, nil)
		var args []SV
		for _, a := range cl.Args {
			args = append(args, env.eval(a))
		}
		res := vc.applyContract(cc, cl.Key, i, args, st, "true", fn.Signature.Results(), token.NoPos)
		vc.params[cl.Var] = res
	}
	env = vc.newEnv(st, st, nil)
	for _, c := range con.Ensures {
		props := c.Props
		if len(props) == 0 {
			props = con.Props
		}
		vc.oblige("lemma", c.Label, props, "true", vc.evalBool(env, c.Expr), c.Text, token.NoPos)
	}
	for _, o := range vc.obls {
		o.Script = &vc.script
		o.Name = con.Name + "/" + strings.TrimPrefix(o.Name, con.Name+"/")
	}
	return vc.obls, nil
}
