package main

// Log ghosts (w-c09).
//
//   //@ ghost log evald: (Array Val Bool)
//
// declares an append-only *event log*: ghost state that records what happened (e.g. which expressions
// were evaluated) rather than what the program stores. Logs are meant to be changed only by assumed
// contracts of events (an `interface`/`extern` contract with `modifies evald`), and they differ from
// ordinary ghosts in one point, chosen so that adding a log never disturbs contracts that do not care
// about it:
//
//   * every repo contract (`func`, `interface`) whose frame is not `assigns nothing`/`pure` and that does
//     not list the log under `modifies` is read as "may append to the log":
//       - in its own verification there is no frame obligation for the log,
//       - at its call sites the log is havocked.
//   * a contract with `assigns nothing`/`pure` keeps the usual frame obligation (the log is unchanged),
//     and one that lists the log under `modifies` is verified against its own ensures, as always.
//   * `extern` contracts (dependencies) leave logs unchanged unless they list them: dependencies are
//     ASSUMED not to produce arr.ai-level events themselves (callbacks into the repo are not tracked).
//
// Soundness: a function can only claim something about a log at exit if every callee on the path either
// promises not to touch it (nothing/pure, verified), says exactly how (modifies + ensures, verified or
// assumed), or havocs it.

import "strings"

var logGhosts = map[string]bool{}

func newGhostVar(name, sort string) GhostVar {
	name = strings.TrimSpace(name)
	if n, ok := registerCursorGhost(name); ok { // cursorghost.go (x-c01): `ghost cursor name: sort`
		return GhostVar{n, strings.TrimSpace(sort)}
	}
	if strings.HasPrefix(name, "log ") {
		name = strings.TrimSpace(name[4:])
		logGhosts[name] = true
	}
	return GhostVar{name, strings.TrimSpace(sort)}
}

func listsGhost(con *Contract, g string) bool {
	for _, m := range con.Modifies {
		if m == g {
			return true
		}
	}
	return false
}

// logImplicitlyModifiable: state variable `name` is a log ghost that the function under verification may
// append to without saying so.
func (vc *VC) logImplicitlyModifiable(name string) bool {
	if !strings.HasPrefix(name, "G|") || !logGhosts[name[2:]] || vc.con == nil {
		return false
	}
	return vc.con.Assigns != "nothing"
}

// havocLogGhosts: effect of a call on the logs the callee's contract does not mention.
func (vc *VC) havocLogGhosts(con *Contract, assigns string, st *State) {
	if len(logGhosts) == 0 || con.Kind == "extern" || assigns == "nothing" || assigns == "" {
		return // "" = everything was havocked already
	}
	for g := range logGhosts {
		if !listsGhost(con, g) {
			vc.havocMatching(st, g)
		}
	}
}
