package main

// Captured variables in contracts of function literals (added by w-c12).
//
// A contract of an anonymous function `Parent$N` may name the variables the literal captures
// (e.g. `s`, `sb`). In the literal's own VC the name denotes the captured cell's content in the
// state the clause is evaluated in (entry state inside old(...)); at a direct call of the closure
// value in the parent it denotes the content of the bound variable at the call (pre-state for
// requires and old(...), post-state for ensures).

import (
	"go/types"

	"golang.org/x/tools/go/ssa"
)

// freeVarIdent resolves name as a captured variable; nil if it is none.
func (e *Env) freeVarIdent(name string) SV {
	vc := e.vc
	if e.fvTerms != nil { // captproj.go (x-c17)
		if v, ok := e.fvTerms[name]; ok {
			return v
		}
		return nil
	}
	if e.fvBind != nil {
		if b, ok := e.fvBind[name]; ok {
			pv := vc.val(b)
			if _, isPtr := b.Type().Underlying().(*types.Pointer); !isPtr {
				return pv
			}
			if p, ok := pv.(Pt); ok {
				switch p.Kind {
				case "local":
					if cell, ok := e.st.locals[p.Local]; ok {
						return getPath(cell, p.Path)
					}
				case "heap":
					return vc.readHeapPtr(e.st, p)
				}
			}
			e.fail("captured variable %q: unsupported binding shape", name)
		}
		return nil
	}
	if vc.fn != nil && e.ownFn {
		for _, fv := range vc.fn.FreeVars {
			if fv.Name() == name {
				if v, ok := e.st.locals[fv]; ok {
					return v
				}
			}
		}
	}
	return nil
}

// closureBindings: name -> bound value for a direct call of a MakeClosure value.
func closureBindings(mc *ssa.MakeClosure) map[string]ssa.Value {
	fn := mc.Fn.(*ssa.Function)
	out := map[string]ssa.Value{}
	for i, fv := range fn.FreeVars {
		if i < len(mc.Bindings) {
			out[fv.Name()] = mc.Bindings[i]
		}
	}
	return out
}
