package main

import (
	"encoding/json"
	"flag"
	"fmt"
	"os"
	"path/filepath"
	"runtime"
	"sort"
	"strconv"
	"strings"
)

func envOr(k, d string) string {
	if v := os.Getenv(k); v != "" {
		return v
	}
	return d
}

var repoDir = envOr("VERIF_REPO", "/repo")
var verifDir = envOr("VERIF_DIR", "/verif")

// contractPackages: every repo package directory that has a verif_contracts.go.
func contractPackages() []string {
	var out []string
	filepath.Walk(repoDir, func(p string, info os.FileInfo, err error) error {
		if err != nil {
			return nil
		}
		if info.IsDir() && (info.Name() == ".git" || info.Name() == "node_modules") {
			return filepath.SkipDir
		}
		if strings.HasPrefix(info.Name(), "verif_contracts") && strings.HasSuffix(info.Name(), ".go") {
			rel, _ := filepath.Rel(repoDir, filepath.Dir(p))
			if len(out) == 0 || out[len(out)-1] != rel {
				out = append(out, rel)
			}
		}
		return nil
	})
	sort.Strings(out)
	var uniq []string
	for i, o := range out {
		if i == 0 || o != out[i-1] {
			uniq = append(uniq, o)
		}
	}
	return uniq
}

// parallelism: number of obligations discharged at once (VERIF_PAR overrides; each runs up to 3 solvers).
func parallelism(def int) int {
	if v, err := strconv.Atoi(os.Getenv("VERIF_PAR")); err == nil && v > 0 {
		return v
	}
	_ = runtime.NumCPU
	return def
}

func hasProp(props []string, p string) bool {
	for _, x := range props {
		if x == p {
			return true
		}
	}
	return false
}

func main() {
	if len(os.Args) < 2 {
		fmt.Fprintln(os.Stderr, "usage: govc check <Cxx> [quick|thorough] | func <key> | list | replay <file> | selftest")
		os.Exit(2)
	}
	switch os.Args[1] {
	case "func":
		fs := flag.NewFlagSet("func", flag.ExitOnError)
		timeout := fs.Int("t", 10, "solver timeout")
		dump := fs.Bool("dump", false, "print failing queries")
		replay := fs.Bool("replay", false, "search for a counter-model of failing obligations and replay it on the real code")
		pkgs := fs.String("pkgs", "", "comma-separated packages to load (default: all with contracts)")
		fs.Parse(os.Args[2:])
		ps := contractPackages()
		if *pkgs != "" {
			ps = strings.Split(*pkgs, ",")
		}
		e, err := Load(repoDir, verifDir, ps)
		if err != nil {
			fmt.Fprintln(os.Stderr, err)
			os.Exit(2)
		}
		// known findings (regions): so that `func` shows the |outside-region siblings like `check` does
		if ff, err := loadFindings(); err == nil {
			e.Findings = ff
		}
		bad := 0
		for _, key := range fs.Args() {
			var obls []*Obligation
			if strings.HasPrefix(key, "lemma.") {
				con := e.CS.Contracts[key]
				if con == nil {
					fmt.Fprintln(os.Stderr, "no lemma", key)
					os.Exit(2)
				}
				o, err := e.GenLemma(con)
				if err != nil {
					fmt.Fprintln(os.Stderr, err)
					os.Exit(2)
				}
				obls = o
			} else {
				con := e.CS.Contracts[key]
				if con == nil {
					fmt.Fprintln(os.Stderr, "no contract for", key)
					os.Exit(2)
				}
				vc, err := e.GenFunc(key, con)
				if err != nil {
					fmt.Fprintln(os.Stderr, err)
					os.Exit(2)
				}
				for _, o := range vc.obls {
					o.Script = &vc.script
				}
				obls = vc.obls
			}
			out := filepath.Join(verifDir, "out", envOr("VERIF_OUT", "func"))
			obls = filterObls(obls) // devfilter.go (w-c09): VERIF_OBL=<regexp> restricts `func` to matching obligations
			e.Discharge(obls, out, *timeout, parallelism(3), false)
			for _, o := range obls {
				if o.Kind == "cover" {
					continue
				}
				fmt.Printf("%-8s %-8s %6.2fs  %s  [%s] %s\n", o.Status, o.Backend, o.Secs, o.Name, strings.Join(o.Props, ","), o.Pos)
				if o.Status != "unsat" {
					bad++
					if *dump {
						fmt.Println(o.Output)
					}
					if *replay {
						e.Replay(o, out)
						b, _ := json.MarshalIndent(o.ReplayInfo, "  ", " ")
						fmt.Println("  replay:", string(b))
					}
				}
			}
		}
		var notes []string
		for n := range e.Notes {
			notes = append(notes, n)
		}
		sort.Strings(notes)
		for _, n := range notes {
			fmt.Println("note:", n)
		}
		if bad > 0 {
			os.Exit(1)
		}
	case "list":
		e, err := Load(repoDir, verifDir, contractPackages())
		if err != nil {
			fmt.Fprintln(os.Stderr, err)
			os.Exit(2)
		}
		for _, c := range e.CS.Order {
			fmt.Printf("%-10s %s\n", c.Kind, c.Name)
		}
	case "sweep":
		// engine smoke test: generate VCs (no solving) for every function of the given packages with an empty contract
		e, err := Load(repoDir, verifDir, os.Args[2:])
		if err != nil {
			fmt.Fprintln(os.Stderr, err)
			os.Exit(2)
		}
		var keys []string
		for k := range e.Funcs {
			keys = append(keys, k)
		}
		sort.Strings(keys)
		counts := map[string]int{}
		for _, k := range keys {
			fn := e.Funcs[k]
			if len(fn.Blocks) == 0 || strings.HasSuffix(k, ".init") || strings.Contains(k, ".init#") {
				continue
			}
			con := e.CS.Contracts[k]
			if con == nil {
				con = &Contract{Kind: "func", Name: k, Pkg: pkgKey(fn.Pkg.Pkg), FnParams: map[string]string{"*": "pure"}, Abstract: []string{"defer"}}
				for i := range fn.Params {
					con.Params = append(con.Params, fmt.Sprintf("p%d", i))
				}
			}
			func() {
				defer func() {
					if r := recover(); r != nil {
						fmt.Printf("CRASH   %s: %v\n", k, r)
						counts["crash"]++
					}
				}()
				vc, err := e.GenFunc(k, con)
				if err != nil {
					fmt.Printf("ERROR   %s: %v\n", k, err)
					counts["error"]++
					return
				}
				if vc.failed != "" {
					fmt.Printf("UNSUPP  %s: %s\n", k, vc.failed)
					counts["unsupported"]++
					return
				}
				counts["ok"]++
			}()
		}
		fmt.Println(counts)
	case "check":
		os.Exit(cmdCheck(os.Args[2:]))
	case "replay":
		os.Exit(cmdReplay(os.Args[2:]))
	case "ssa":
		os.Exit(cmdSSA(os.Args[2:]))
	case "capscan":
		os.Exit(cmdCapScan(os.Args[2:]))
	default:
		fmt.Fprintln(os.Stderr, "unknown command", os.Args[1])
		os.Exit(2)
	}
}
