package main

import (
	"encoding/json"
	"flag"
	"fmt"
	"os"
	"path/filepath"
	"runtime"
	"sort"
	"strings"
)

func envOr(k, d string) string {
	if v := os.Getenv(k); v != "" {
		return v
	}
	return d
}

var repoDir = envOr("VERIF_REPO", "/repo")
var verifDir = envOr("VERIF_DIR", "/verif")

// contractPackages: every repo package directory that has a verif_contracts.go.
func contractPackages() []string {
	var out []string
	filepath.Walk(repoDir, func(p string, info os.FileInfo, err error) error {
		if err != nil {
			return nil
		}
		if info.IsDir() && (info.Name() == ".git" || info.Name() == "node_modules") {
			return filepath.SkipDir
		}
		if info.Name() == "verif_contracts.go" {
			rel, _ := filepath.Rel(repoDir, filepath.Dir(p))
			out = append(out, rel)
		}
		return nil
	})
	sort.Strings(out)
	return out
}

func hasProp(props []string, p string) bool {
	for _, x := range props {
		if x == p {
			return true
		}
	}
	return false
}

func main() {
	if len(os.Args) < 2 {
		fmt.Fprintln(os.Stderr, "usage: govc check <Cxx> [quick|thorough] | func <key> | list | replay <file> | selftest")
		os.Exit(2)
	}
	switch os.Args[1] {
	case "func":
		fs := flag.NewFlagSet("func", flag.ExitOnError)
		timeout := fs.Int("t", 10, "solver timeout")
		dump := fs.Bool("dump", false, "print failing queries")
		replay := fs.Bool("replay", false, "search for a counter-model of failing obligations and replay it on the real code")
		pkgs := fs.String("pkgs", "", "comma-separated packages to load (default: all with contracts)")
		fs.Parse(os.Args[2:])
		ps := contractPackages()
		if *pkgs != "" {
			ps = strings.Split(*pkgs, ",")
		}
		e, err := Load(repoDir, verifDir, ps)
		if err != nil {
			fmt.Fprintln(os.Stderr, err)
			os.Exit(2)
		}
		bad := 0
		for _, key := range fs.Args() {
			var obls []*Obligation
			if strings.HasPrefix(key, "lemma.") {
				con := e.CS.Contracts[key]
				if con == nil {
					fmt.Fprintln(os.Stderr, "no lemma", key)
					os.Exit(2)
				}
				o, err := e.GenLemma(con)
				if err != nil {
					fmt.Fprintln(os.Stderr, err)
					os.Exit(2)
				}
				obls = o
			} else {
				con := e.CS.Contracts[key]
				if con == nil {
					fmt.Fprintln(os.Stderr, "no contract for", key)
					os.Exit(2)
				}
				vc, err := e.GenFunc(key, con)
				if err != nil {
					fmt.Fprintln(os.Stderr, err)
					os.Exit(2)
				}
				for _, o := range vc.obls {
					o.Script = &vc.script
				}
				obls = vc.obls
			}
			out := filepath.Join(verifDir, "out", "func")
			e.Discharge(obls, out, *timeout, runtime.NumCPU()/2, false)
			for _, o := range obls {
				if o.Kind == "cover" {
					continue
				}
				fmt.Printf("%-8s %-8s %6.2fs  %s  [%s] %s\n", o.Status, o.Backend, o.Secs, o.Name, strings.Join(o.Props, ","), o.Pos)
				if o.Status != "unsat" {
					bad++
					if *dump {
						fmt.Println(o.Output)
					}
					if *replay {
						e.Replay(o, out)
						b, _ := json.MarshalIndent(o.ReplayInfo, "  ", " ")
						fmt.Println("  replay:", string(b))
					}
				}
			}
		}
		var notes []string
		for n := range e.Notes {
			notes = append(notes, n)
		}
		sort.Strings(notes)
		for _, n := range notes {
			fmt.Println("note:", n)
		}
		if bad > 0 {
			os.Exit(1)
		}
	case "list":
		e, err := Load(repoDir, verifDir, contractPackages())
		if err != nil {
			fmt.Fprintln(os.Stderr, err)
			os.Exit(2)
		}
		for _, c := range e.CS.Order {
			fmt.Printf("%-10s %s\n", c.Kind, c.Name)
		}
	case "check":
		os.Exit(cmdCheck(os.Args[2:]))
	case "replay":
		os.Exit(cmdReplay(os.Args[2:]))
	default:
		fmt.Fprintln(os.Stderr, "unknown command", os.Args[1])
		os.Exit(2)
	}
}
