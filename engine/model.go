package main

// Counter-model search for a failed obligation.
//
// Quantified prelude axioms make the solvers answer "unknown" on obligations that do not hold. To
// find a candidate input, the same query is asked again with every quantified *assumption*
// dropped (an under-approximation of the theory, so a model is only a candidate) and small bounds
// on slice lengths. Candidates are never trusted: they are replayed on the real code (replay.go).

import (
	"bufio"
	"fmt"
	"io"
	"os/exec"
	"strings"
	"time"
)

type smtSession struct {
	cmd *exec.Cmd
	in  io.WriteCloser
	out *bufio.Reader
}

func startZ3(solver string) (*smtSession, error) {
	cmd := exec.Command(solver, "-in", "-T:20")
	in, err := cmd.StdinPipe()
	if err != nil {
		return nil, err
	}
	out, err := cmd.StdoutPipe()
	if err != nil {
		return nil, err
	}
	cmd.Stderr = nil
	if err := cmd.Start(); err != nil {
		return nil, err
	}
	return &smtSession{cmd, in, bufio.NewReader(out)}, nil
}

func (s *smtSession) send(text string) {
	io.WriteString(s.in, text+"\n")
}

// readSexpr reads one balanced s-expression or atom line from the solver.
func (s *smtSession) readSexpr() (string, error) {
	var sb strings.Builder
	depth := 0
	started := false
	deadline := time.Now().Add(25 * time.Second)
	for time.Now().Before(deadline) {
		line, err := s.out.ReadString('\n')
		if err != nil && line == "" {
			return sb.String(), err
		}
		sb.WriteString(line)
		for _, c := range line {
			if c == '(' {
				depth++
				started = true
			} else if c == ')' {
				depth--
			}
		}
		if strings.TrimSpace(line) != "" && (!started || depth <= 0) {
			return strings.TrimSpace(sb.String()), nil
		}
	}
	return sb.String(), fmt.Errorf("timeout reading solver output")
}

func (s *smtSession) close() {
	s.in.Close()
	s.cmd.Process.Kill()
	s.cmd.Wait()
}

func (s *smtSession) getValue(terms ...string) (map[string]string, error) {
	if len(terms) == 0 {
		return map[string]string{}, nil
	}
	s.send("(get-value (" + strings.Join(terms, " ") + "))")
	out, err := s.readSexpr()
	if err != nil {
		return nil, err
	}
	if strings.HasPrefix(out, "(error") {
		return nil, fmt.Errorf("%s", out)
	}
	m := map[string]string{}
	els := listElems(out)
	for i, pair := range els {
		el := listElems(pair)
		if len(el) == 2 && i < len(terms) {
			m[terms[i]] = el[1]
		}
	}
	return m, nil
}

// qfQuery: the obligation's query with quantified assumptions removed.
func (e *Engine) qfQuery(o *Obligation, extra []string) string {
	var body strings.Builder
	for _, l := range (*o.Script)[:o.Prefix] {
		if strings.HasPrefix(l, "(assert") && (strings.Contains(l, "(forall ") || strings.Contains(l, "(exists ")) {
			continue
		}
		body.WriteString(l + "\n")
	}
	for _, l := range o.Extra {
		body.WriteString(l + "\n")
	}
	for _, l := range extra {
		body.WriteString(l + "\n")
	}
	body.WriteString("(assert (not " + sImp(o.Guard, o.Goal) + "))\n")
	b := body.String()
	var pre strings.Builder
	for _, item := range splitSexprs(e.Prelude.Slice(b)) {
		if strings.HasPrefix(item, "(assert") && (strings.Contains(item, "(forall ") || strings.Contains(item, "(exists ")) {
			continue
		}
		pre.WriteString(item + "\n")
	}
	return "(set-option :produce-models true)\n(set-logic ALL)\n" + pre.String() + b
}

// parseIntVal parses SMT integer values like 5 or (- 5).
func parseIntVal(s string) (int64, bool) {
	s = strings.TrimSpace(s)
	neg := false
	if strings.HasPrefix(s, "(-") {
		neg = true
		s = strings.TrimSpace(strings.TrimSuffix(strings.TrimPrefix(s, "(-"), ")"))
	}
	var n int64
	if s == "" {
		return 0, false
	}
	for _, c := range s {
		if c < '0' || c > '9' {
			return 0, false
		}
		d := int64(c - '0')
		if n > (1<<62)/10 {
			return 0, false
		}
		n = n*10 + d
	}
	if neg {
		n = -n
	}
	return n, true
}
